import CCV.Model.Sort
import CCV.Lemmas.Compare
import Batteries.Data.List.Perm
/-
  Lemmas for C18 (sorting / permutations).  Core `List` lemmas only, plus `CCV.Lemmas.Compare`
  for the bit-string facts shared with C16.
-/
namespace CCV.Sort

/-! ### `lexLt` is a strict total order -/

theorem lexLt_irrefl (a : List Nat) : lexLt a a = false := by
  induction a with
  | nil => rfl
  | cons x xs ih => simp [lexLt, ih]

theorem lexLt_trans (a b c : List Nat) (h1 : lexLt a b = true) (h2 : lexLt b c = true) :
    lexLt a c = true := by
  induction a generalizing b c with
  | nil => cases b <;> cases c <;> simp_all [lexLt]
  | cons x xs ih =>
    cases b with
    | nil => simp [lexLt] at h1
    | cons y ys =>
      cases c with
      | nil => simp [lexLt] at h2
      | cons z zs =>
        simp only [lexLt] at h1 h2 ⊢
        by_cases hxy : x < y
        · by_cases hyz : y < z
          · have : x < z := by omega
            simp [this]
          · by_cases hzy : z < y
            · simp [hyz, hzy] at h2
            · have : x < z := by omega
              simp [this]
        · by_cases hyx : y < x
          · simp [hxy, hyx] at h1
          · simp only [hxy, hyx, if_false] at h1
            have hxy' : x = y := by omega
            subst hxy'
            by_cases hxz : x < z
            · simp [hxz]
            · by_cases hzx : z < x
              · simp [hxz, hzx] at h2
              · simp only [hxz, hzx, if_false] at h2 ⊢
                exact ih _ _ h1 h2

theorem lexLt_asymm (a b : List Nat) (h1 : lexLt a b = true) : lexLt b a = false := by
  cases h : lexLt b a with
  | false => rfl
  | true => have := lexLt_trans a b a h1 h; rw [lexLt_irrefl] at this; cases this

theorem lexLt_tri (a b : List Nat) (h1 : lexLt a b = false) (h2 : lexLt b a = false) : a = b := by
  induction a generalizing b with
  | nil => cases b <;> simp_all [lexLt]
  | cons x xs ih =>
    cases b with
    | nil => simp [lexLt] at h2
    | cons y ys =>
      simp only [lexLt] at h1 h2
      by_cases hxy : x < y
      · simp [hxy] at h1
      · by_cases hyx : y < x
        · simp [hyx] at h2
        · simp only [hxy, hyx, if_false] at h1 h2
          have : x = y := by omega
          subst this
          rw [ih ys h1 h2]

/-! ### stable insertion sort -/

theorem insertBy_perm {α : Type} (lt : α → α → Bool) (x : α) (l : List α) :
    (insertBy lt x l).Perm (x :: l) := by
  induction l with
  | nil => exact List.Perm.refl _
  | cons y ys ih =>
    simp only [insertBy]
    split
    · exact ((List.Perm.cons y ih).trans (List.Perm.swap x y ys))
    · exact List.Perm.refl _

theorem isort_perm {α : Type} (lt : α → α → Bool) (l : List α) : (isort lt l).Perm l := by
  induction l with
  | nil => exact List.Perm.refl _
  | cons x xs ih =>
    show (insertBy lt x (isort lt xs)).Perm (x :: xs)
    exact (insertBy_perm lt x _).trans (List.Perm.cons x ih)

theorem pairwise_insertBy {α : Type} (lt : α → α → Bool) (R : α → α → Prop)
    (trans : ∀ a b c, R a b → R b c → R a c) (x : α) (l : List α) (hl : l.Pairwise R)
    (h1 : ∀ y ∈ l, lt y x = true → R y x) (h2 : ∀ y ∈ l, lt y x = false → R x y) :
    (insertBy lt x l).Pairwise R := by
  induction l with
  | nil => simp [insertBy]
  | cons y ys ih =>
    simp only [insertBy]
    have hy := List.pairwise_cons.mp hl
    cases hlt : lt y x with
    | true =>
      simp only [if_true]
      refine List.pairwise_cons.mpr ⟨?_, ih hy.2 (fun z hz => h1 z (List.mem_cons_of_mem _ hz))
        (fun z hz => h2 z (List.mem_cons_of_mem _ hz))⟩
      intro z hz
      rcases (List.mem_cons.mp ((insertBy_perm lt x ys).mem_iff.mp hz)) with rfl | hz
      · exact h1 y List.mem_cons_self hlt
      · exact hy.1 z hz
    | false =>
      simp only [Bool.false_eq_true, if_false]
      have hxy : R x y := h2 y List.mem_cons_self hlt
      refine List.pairwise_cons.mpr ⟨?_, hl⟩
      intro z hz
      rcases List.mem_cons.mp hz with rfl | hz
      · exact hxy
      · exact trans _ _ _ hxy (hy.1 z hz)

/-- the order in which a stable sort by key puts the rows: key first, input position second -/
def stableLt (keys : List (List Nat)) (i j : Nat) : Prop :=
  lexLt (keys.getD i []) (keys.getD j []) = true ∨ (keys.getD i [] = keys.getD j [] ∧ i < j)

theorem stableLt_trans (keys : List (List Nat)) (a b c : Nat) (h1 : stableLt keys a b)
    (h2 : stableLt keys b c) : stableLt keys a c := by
  unfold stableLt at *
  rcases h1 with h1 | ⟨e1, l1⟩ <;> rcases h2 with h2 | ⟨e2, l2⟩
  · exact Or.inl (lexLt_trans _ _ _ h1 h2)
  · exact Or.inl (e2 ▸ h1)
  · exact Or.inl (e1 ▸ h2)
  · exact Or.inr ⟨e1.trans e2, by omega⟩

theorem stableLt_asymm (keys : List (List Nat)) (a b : Nat) (h1 : stableLt keys a b) :
    ¬ stableLt keys b a := by
  unfold stableLt at *
  intro h2
  rcases h1 with h1 | ⟨e1, l1⟩ <;> rcases h2 with h2 | ⟨e2, l2⟩
  · rw [lexLt_asymm _ _ h1] at h2; cases h2
  · rw [e2, lexLt_irrefl] at h1; cases h1
  · rw [e1, lexLt_irrefl] at h2; cases h2
  · omega

theorem stableLt_tri (keys : List (List Nat)) (a b : Nat) :
    stableLt keys a b ∨ a = b ∨ stableLt keys b a := by
  unfold stableLt
  cases h1 : lexLt (keys.getD a []) (keys.getD b []) with
  | true => exact Or.inl (Or.inl rfl)
  | false =>
    cases h2 : lexLt (keys.getD b []) (keys.getD a []) with
    | true => exact Or.inr (Or.inr (Or.inl rfl))
    | false =>
      have e := lexLt_tri _ _ h1 h2
      rcases Nat.lt_trichotomy a b with h | h | h
      · exact Or.inl (Or.inr ⟨e, h⟩)
      · exact Or.inr (Or.inl h)
      · exact Or.inr (Or.inr (Or.inr ⟨e.symm, h⟩))

/-- `p` lists the rows `0..n-1` of the key column in stably sorted order: a permutation of the
    row indices in which every earlier entry precedes every later one in (key, input position) -/
def IsStableSortPerm (keys : List (List Nat)) (p : List Nat) : Prop :=
  p.Perm (List.range keys.length) ∧ p.Pairwise (stableLt keys)

theorem isort_pairs_pairwise (l : List (List Nat × Nat)) (hl : l.Pairwise (fun a b => a.2 < b.2)) :
    (isort (fun a b => lexLt a.1 b.1) l).Pairwise
      (fun a b => lexLt a.1 b.1 = true ∨ (a.1 = b.1 ∧ a.2 < b.2)) := by
  induction l with
  | nil => simp [isort]
  | cons x xs ih =>
    have hx := List.pairwise_cons.mp hl
    show (insertBy _ x (isort _ xs)).Pairwise _
    apply pairwise_insertBy
    · intro a b c h1 h2
      rcases h1 with h1 | ⟨e1, l1⟩ <;> rcases h2 with h2 | ⟨e2, l2⟩
      · exact Or.inl (lexLt_trans _ _ _ h1 h2)
      · exact Or.inl (e2 ▸ h1)
      · exact Or.inl (e1 ▸ h2)
      · exact Or.inr ⟨e1.trans e2, by omega⟩
    · exact ih hx.2
    · intro y _ h; exact Or.inl h
    · intro y hy h
      have hy' : y ∈ xs := (isort_perm _ xs).mem_iff.mp hy
      have hlt := hx.1 y hy'
      cases h2 : lexLt x.1 y.1 with
      | true => exact Or.inl rfl
      | false => exact Or.inr ⟨(lexLt_tri _ _ h h2).symm, hlt⟩

theorem mem_zip_range (keys : List (List Nat)) (k : List Nat) (i : Nat)
    (h : (k, i) ∈ keys.zip (List.range keys.length)) : keys.getD i [] = k := by
  obtain ⟨j, hj, e⟩ := List.mem_iff_getElem.mp h
  simp only [List.getElem_zip, List.getElem_range, Prod.mk.injEq] at e
  obtain ⟨e1, e2⟩ := e
  subst e2
  simp only [List.length_zip, List.length_range, Nat.min_self] at hj
  simp [List.getD, hj, e1]

theorem sortPerm_perm (keys : List (List Nat)) : (sortPerm keys).Perm (List.range keys.length) := by
  unfold sortPerm
  have h := (isort_perm (fun a b : List Nat × Nat => lexLt a.1 b.1)
    (keys.zip (List.range keys.length))).map (·.2)
  refine h.trans ?_
  rw [show (fun x : List Nat × Nat => x.2) = Prod.snd from rfl, List.map_snd_zip (by simp)]

theorem sortPerm_spec (keys : List (List Nat)) : IsStableSortPerm keys (sortPerm keys) := by
  refine ⟨sortPerm_perm keys, ?_⟩
  unfold sortPerm
  rw [List.pairwise_map]
  have hz : (keys.zip (List.range keys.length)).Pairwise (fun a b => a.2 < b.2) := by
    have : ((keys.zip (List.range keys.length)).map Prod.snd).Pairwise (· < ·) := by
      rw [List.map_snd_zip (by simp)]; exact List.pairwise_lt_range
    exact List.pairwise_map.mp this
  refine (isort_pairs_pairwise _ hz).imp_of_mem ?_
  intro a b ha hb hab
  have ha' := mem_zip_range keys a.1 a.2 ((isort_perm _ _).mem_iff.mp ha)
  have hb' := mem_zip_range keys b.1 b.2 ((isort_perm _ _).mem_iff.mp hb)
  unfold stableLt
  rw [ha', hb']
  exact hab

/-- THE stable sorting permutation is unique -/
theorem stableSortPerm_unique (keys : List (List Nat)) (p q : List Nat)
    (hp : IsStableSortPerm keys p) (hq : IsStableSortPerm keys q) : p = q := by
  apply List.Perm.eq_of_pairwise (le := stableLt keys) _ hp.2 hq.2 (hp.1.trans hq.1.symm)
  intro a b _ _ h1 h2
  exact absurd h2 (stableLt_asymm keys a b h1)

/-! ### gather -/

theorem allSome_eq_some {α : Type} (l : List (Option α)) (r : List α) :
    allSome l = some r ↔ l = r.map some := by
  induction l generalizing r with
  | nil => cases r <;> simp [allSome]
  | cons x t ih =>
    cases x with
    | none => cases r <;> simp [allSome]
    | some x =>
      cases r with
      | nil => simp [allSome]
      | cons y ys =>
        simp only [allSome, Option.map_eq_some_iff, List.map_cons, List.cons.injEq, Option.some.injEq]
        constructor
        · rintro ⟨a, h1, h2, h3⟩
          exact ⟨h2, (ih a).mp h1 |>.trans (by rw [h3])⟩
        · rintro ⟨h1, h2⟩
          exact ⟨ys, (ih ys).mpr h2, h1, rfl⟩

theorem gather_eq_some {α : Type} (a : List α) (idx : List Nat) (r : List α) :
    gather a idx = some r ↔ idx.map (a[·]?) = r.map some := allSome_eq_some _ _

theorem gather_length {α : Type} {a : List α} {idx : List Nat} {r : List α}
    (h : gather a idx = some r) : r.length = idx.length := by
  have := congrArg List.length ((gather_eq_some a idx r).mp h)
  simpa using this.symm

theorem gather_get {α : Type} {a : List α} {idx : List Nat} {r : List α}
    (h : gather a idx = some r) (j i : Nat) (hj : idx[j]? = some i) : r[j]? = a[i]? ∧ i < a.length := by
  have := congrArg (·[j]?) ((gather_eq_some a idx r).mp h)
  simp only [List.getElem?_map, hj, Option.map_some] at this
  cases hr : r[j]? with
  | none => rw [hr] at this; simp at this
  | some v =>
    rw [hr] at this
    simp only [Option.map_some, Option.some.injEq] at this
    exact ⟨this.symm, (List.getElem?_eq_some_iff.mp this).1⟩

theorem gather_exists {α : Type} (a : List α) (idx : List Nat) (h : ∀ i ∈ idx, i < a.length) :
    ∃ r, gather a idx = some r := by
  induction idx with
  | nil => exact ⟨[], rfl⟩
  | cons i is ih =>
    obtain ⟨r, hr⟩ := ih (fun j hj => h j (List.mem_cons_of_mem _ hj))
    have hi := h i List.mem_cons_self
    refine ⟨a[i] :: r, ?_⟩
    rw [gather_eq_some] at hr ⊢
    simp [hr, List.getElem?_eq_getElem hi]

theorem gather_none {α : Type} (a : List α) (idx : List Nat) (i : Nat) (hi : i ∈ idx)
    (h : a.length ≤ i) : gather a idx = none := by
  cases hg : gather a idx with
  | none => rfl
  | some r =>
    obtain ⟨j, hj, e⟩ := List.mem_iff_getElem.mp hi
    have := (gather_get hg j i (by rw [List.getElem?_eq_getElem hj, e])).2
    omega

/-! ### permutations of `0..n-1` -/

theorem perm_range_of_nodup (n : Nat) (l : List Nat) (hn : l.Nodup) (hl : ∀ x ∈ l, x < n)
    (hlen : l.length = n) : l.Perm (List.range n) := by
  apply (List.subperm_of_subset hn ?_).perm_of_length_le (by simp [hlen])
  intro x hx
  exact List.mem_range.mpr (hl x hx)

theorem perm_range_nodup {n : Nat} {l : List Nat} (h : l.Perm (List.range n)) : l.Nodup :=
  h.nodup_iff.mpr List.nodup_range

theorem perm_range_lt {n : Nat} {l : List Nat} (h : l.Perm (List.range n)) (x : Nat) (hx : x ∈ l) :
    x < n := List.mem_range.mp (h.mem_iff.mp hx)

theorem perm_range_length {n : Nat} {l : List Nat} (h : l.Perm (List.range n)) : l.length = n := by
  simpa using h.length_eq

theorem perm_range_get_lt {n : Nat} {l : List Nat} (h : l.Perm (List.range n)) (k v : Nat)
    (hk : l[k]? = some v) : v < n := perm_range_lt h v (List.mem_of_getElem? hk)

theorem perm_range_surj {n : Nat} {l : List Nat} (h : l.Perm (List.range n)) (v : Nat) (hv : v < n) :
    ∃ k, k < n ∧ l[k]? = some v := by
  have : v ∈ l := h.mem_iff.mpr (List.mem_range.mpr hv)
  obtain ⟨k, hk, e⟩ := List.mem_iff_getElem.mp this
  exact ⟨k, by rw [← perm_range_length h]; exact hk, by rw [List.getElem?_eq_getElem hk, e]⟩

theorem nodup_get_inj {l : List Nat} (h : l.Nodup) (i j v : Nat) (hi : l[i]? = some v)
    (hj : l[j]? = some v) : i = j := by
  have hi' : i < l.length := (List.getElem?_eq_some_iff.mp hi).1
  have hj' : j < l.length := (List.getElem?_eq_some_iff.mp hj).1
  have e1 : l[i] = v := (List.getElem?_eq_some_iff.mp hi).2
  have e2 : l[j] = v := (List.getElem?_eq_some_iff.mp hj).2
  have := h.idxOf_getElem i hi'
  have h2 := h.idxOf_getElem j hj'
  rw [e1] at this; rw [e2] at h2
  omega

/-! ### `execute_inverse_permutation` -/

theorem invLoop_spec (vs : List Nat) (i : Nat) (res out : List Nat) (h : invLoop vs i res = some out) :
    out.length = res.length ∧ (∀ v ∈ vs, v < res.length) ∧ (∀ j, j ∉ vs → out[j]? = res[j]?) ∧
    (vs.Nodup → ∀ k v, vs[k]? = some v → out[v]? = some (i + k)) := by
  induction vs generalizing i res with
  | nil =>
    simp only [invLoop, Option.some.injEq] at h
    subst h
    simp
  | cons v vs ih =>
    simp only [invLoop] at h
    split at h
    · rename_i hv
      obtain ⟨h1, h2, h3, h4⟩ := ih (i + 1) (res.set v i) h
      simp only [List.length_set] at h1 h2
      refine ⟨h1, ?_, ?_, ?_⟩
      · intro w hw
        rcases List.mem_cons.mp hw with rfl | hw
        · exact hv
        · exact h2 w hw
      · intro j hj
        simp only [List.mem_cons, not_or] at hj
        rw [h3 j hj.2, List.getElem?_set]
        simp [Ne.symm hj.1]
      · intro hnd k w hk
        have hnd' := List.nodup_cons.mp hnd
        cases k with
        | zero =>
          simp only [List.getElem?_cons_zero, Option.some.injEq] at hk
          subst hk
          rw [h3 v hnd'.1, List.getElem?_set]
          simp [hv]
        | succ k =>
          simp only [List.getElem?_cons_succ] at hk
          rw [h4 hnd'.2 k w hk]
          congr 1; omega
    · cases h

theorem invLoop_exists (vs : List Nat) (i : Nat) (res : List Nat) (h : ∀ v ∈ vs, v < res.length) :
    ∃ out, invLoop vs i res = some out := by
  induction vs generalizing i res with
  | nil => exact ⟨res, rfl⟩
  | cons v vs ih =>
    simp only [invLoop, h v List.mem_cons_self, if_true]
    exact ih _ _ (fun w hw => by simpa using h w (List.mem_cons_of_mem _ hw))

/-- `q` inverts `p`: `q[p[k]] = k` -/
def InvRel (p q : List Nat) : Prop := ∀ k v : Nat, p[k]? = some v → q[v]? = some k

theorem executeInverse_spec (p q : List Nat) (h : executeInverse p = some q) :
    q.length = p.length ∧ (∀ v ∈ p, v < p.length) ∧ (p.Nodup → InvRel p q) := by
  obtain ⟨h1, h2, _, h4⟩ := invLoop_spec p 0 _ q h
  simp only [List.length_replicate] at h1 h2
  refine ⟨h1, h2, fun hn k v hk => ?_⟩
  simpa using h4 hn k v hk

theorem executeInverse_exists (p : List Nat) (h : ∀ v ∈ p, v < p.length) :
    ∃ q, executeInverse p = some q :=
  invLoop_exists p 0 _ (by simpa using h)

/-- the inverse of a permutation of `0..n-1` is a permutation, and inverts on both sides -/
theorem invRel_perm {n : Nat} {p q : List Nat} (hp : p.Perm (List.range n)) (hq : q.length = n)
    (h : InvRel p q) : q.Perm (List.range n) ∧ InvRel q p := by
  have hconv : InvRel q p := by
    intro v k hv
    have hvn : v < n := by
      have := (List.getElem?_eq_some_iff.mp hv).1; omega
    obtain ⟨k', _, hk'⟩ := perm_range_surj hp v hvn
    have := h k' v hk'
    rw [hv] at this
    cases this
    exact hk'
  refine ⟨perm_range_of_nodup n q ?_ ?_ hq, hconv⟩
  · rw [List.nodup_iff_pairwise_ne, List.pairwise_iff_getElem]
    intro i j hi hj hij e
    have h1 := hconv i q[i] (List.getElem?_eq_getElem hi)
    have h2 := hconv j q[j] (List.getElem?_eq_getElem hj)
    rw [e] at h1
    rw [h1] at h2
    cases h2
    omega
  · intro x hx
    obtain ⟨i, hi, e⟩ := List.mem_iff_getElem.mp hx
    have h1 := hconv i x (by rw [List.getElem?_eq_getElem hi, e])
    have := (List.getElem?_eq_some_iff.mp h1).1
    rw [perm_range_length hp] at this
    exact this

end CCV.Sort
