import CCV.Model.Compare
/-
  Helper lemmas for C16: the shrink tree of `build_comparison_graph` computes the fold of `join`
  over the positions, low → high; the folded state decides the order of the encoded naturals.
-/
namespace CCV.Compare

/-! ### `join` is associative; option-lifted monoid -/

theorem join_assoc (x y z : St) : join (join x y) z = join x (join y z) := by
  obtain ⟨xe, xa⟩ := x
  obtain ⟨ye, ya⟩ := y
  obtain ⟨ze, za⟩ := z
  cases xe <;> cases xa <;> cases ye <;> cases ya <;> cases ze <;> cases za <;> rfl

/-- `join` lifted to `Option`, `none` = "no positions" (the unit) -/
def joinO : Option St → Option St → Option St
  | none, y => y
  | some x, none => some x
  | some x, some y => some (join x y)

@[simp] theorem joinO_none_left (y : Option St) : joinO none y = y := rfl
@[simp] theorem joinO_none_right (x : Option St) : joinO x none = x := by cases x <;> rfl
@[simp] theorem joinO_some (x y : St) : joinO (some x) (some y) = some (join x y) := rfl

theorem joinO_assoc (x y z : Option St) : joinO (joinO x y) z = joinO x (joinO y z) := by
  cases x <;> cases y <;> cases z <;> simp [joinO, join_assoc]

/-- the fold of `join` over a list of states, low → high; `none` for the empty list -/
def foldJ : List St → Option St
  | [] => none
  | x :: xs => joinO (some x) (foldJ xs)

@[simp] theorem foldJ_nil : foldJ [] = none := rfl
@[simp] theorem foldJ_cons (x : St) (xs : List St) : foldJ (x :: xs) = joinO (some x) (foldJ xs) := rfl

theorem foldJ_append (l1 l2 : List St) : foldJ (l1 ++ l2) = joinO (foldJ l1) (foldJ l2) := by
  induction l1 with
  | nil => simp
  | cons x xs ih => simp [ih, joinO_assoc]

/-- the left fold used by `build_comparison_graph` (`res = res.join(remainder)`) is `foldJ` -/
theorem foldl_join_eq (xs : List St) (x : St) : some (xs.foldl join x) = joinO (some x) (foldJ xs) := by
  induction xs generalizing x with
  | nil => simp
  | cons y ys ih => simp only [List.foldl_cons, ih, foldJ_cons, ← joinO_assoc, joinO_some]

/-! ### one shrinking level -/

/-- adjacent pairs joined (higher index has priority) -/
def pairs : List St → List St
  | x :: y :: rest => join x y :: pairs rest
  | _ => []

theorem zipWith_everyOther (l : List St) :
    List.zipWith join (everyOther l) (everyOther (l.drop 1)) = pairs l := by
  fun_induction pairs l with
  | case1 x y rest ih =>
    cases rest with
    | nil => simp [everyOther, pairs]
    | cons z rest' => simpa [everyOther] using ih
  | case2 l h =>
    match l, h with
    | [], _ => simp [everyOther]
    | [x], _ => simp [everyOther]
    | x :: y :: rest, h => exact absurd rfl (h x y rest)

theorem pairs_length (l : List St) : (pairs l).length = l.length / 2 := by
  fun_induction pairs l with
  | case1 x y rest ih => simp [ih]; omega
  | case2 l h =>
    match l, h with
    | [], _ => simp
    | [x], _ => simp
    | x :: y :: rest, h => exact absurd rfl (h x y rest)

theorem foldJ_pairs (l : List St) (h : l.length % 2 = 0) : foldJ (pairs l) = foldJ l := by
  fun_induction pairs l with
  | case1 x y rest ih =>
    have : rest.length % 2 = 0 := by simp at h; omega
    simp [ih this, ← joinO_assoc]
  | case2 l hl =>
    match l, hl with
    | [], _ => simp
    | [x], _ => simp at h
    | x :: y :: rest, hl => exact absurd rfl (hl x y rest)

theorem shrink_eq (l : List St) :
    shrink l = (if l.length ≤ 1 then none else some (pairs (l.drop (l.length % 2))),
                if l.length % 2 = 0 then none else l.head?) := by
  simp only [shrink, subSlice]
  congr 1
  split
  · rfl
  · rw [← zipWith_everyOther, List.drop_drop]

/-! ### the loop computes the fold -/

theorem foldJ_loop (fuel : Nat) (l rems : List St) (h : l.length ≤ fuel) :
    foldJ (loop fuel l rems) = joinO (foldJ rems) (foldJ l) := by
  induction fuel generalizing l rems with
  | zero =>
    have : l = [] := List.eq_nil_of_length_eq_zero (by omega)
    subst this; simp [loop]
  | succ fuel ih =>
    simp only [loop, shrink_eq]
    match l, h with
    | [], _ => simp
    | [x], _ => simp [foldJ_append]
    | x :: y :: t, h =>
      by_cases hpar : (x :: y :: t).length % 2 = 0
      · have hlen : (pairs (x :: y :: t)).length ≤ fuel := by
          rw [pairs_length]; simp at h ⊢; omega
        simp only [hpar]
        simp only [List.length_cons] at hpar h ⊢
        simp only [show ¬ (t.length + 1 + 1 ≤ 1) by omega, if_false, if_true, List.drop_zero]
        rw [ih _ _ hlen, foldJ_pairs _ (by simpa using hpar)]
      · have h1 : (x :: y :: t).length % 2 = 1 := by omega
        have hev : (y :: t).length % 2 = 0 := by simp at h1 ⊢; omega
        have hlen : (pairs (y :: t)).length ≤ fuel := by
          rw [pairs_length]; simp at h ⊢; omega
        simp only [h1]
        simp only [List.length_cons] at h ⊢
        simp only [show ¬ (t.length + 1 + 1 ≤ 1) by omega, if_false, List.head?_cons,
          show ¬ ((1 : Nat) = 0) by omega, List.drop_succ_cons, List.drop_zero]
        rw [ih _ _ hlen, foldJ_pairs _ hev, foldJ_append]
        simp [joinO_assoc]

/-- **the shrink tree equals the fold**, every length -/
theorem build_eq_foldJ (l : List St) : build l = foldJ l := by
  have h := foldJ_loop l.length l [] (Nat.le_refl _)
  simp only [foldJ_nil, joinO_none_left] at h
  unfold build
  cases hl : loop l.length l [] with
  | nil => rw [hl] at h; simpa using h
  | cons r0 rest => rw [hl] at h; simp only [foldl_join_eq]; simpa using h

/-! ### the folded state decides the order of the encoded numbers -/

/-- `s` describes the comparison of the integers `A`, `B`: `eq` iff equal; if not equal, `a` iff `A > B` -/
def Good (s : St) (A B : Int) : Prop :=
  (s.eq = true ↔ A = B) ∧ (s.eq = false → (s.a = true ↔ B < A))

def bit (b : Bool) : Nat := if b then 1 else 0

theorem ofBits_cons (b : Bool) (bs : List Bool) : ofBits (b :: bs) = bit b + 2 * ofBits bs := rfl

theorem good_fromAB (a b : Bool) : Good (fromAB a b) (bit a) (bit b) := by
  cases a <;> cases b <;> simp [Good, fromAB, bit]

theorem good_join (lo hi : St) (a0 b0 : Bool) (A B : Int)
    (hlo : Good lo (bit a0) (bit b0)) (hhi : Good hi A B) :
    Good (join lo hi) (bit a0 + 2 * A) (bit b0 + 2 * B) := by
  obtain ⟨le, la⟩ := lo
  obtain ⟨he, ha⟩ := hi
  cases a0 <;> cases b0 <;> cases le <;> cases la <;> cases he <;> cases ha <;>
    simp [Good, join, bit] at hlo hhi ⊢ <;> omega

theorem good_shift (s : St) (A B c : Int) (h : Good s (A + c) (B + c)) : Good s A B := by
  obtain ⟨h1, h2⟩ := h
  refine ⟨?_, ?_⟩
  · rw [h1]; omega
  · intro he; rw [h2 he]; omega

theorem foldJ_good (a b : List Bool) (h : a.length = b.length) (hne : a ≠ []) :
    ∃ s, foldJ (List.zipWith fromAB a b) = some s ∧ Good s (ofBits a) (ofBits b) := by
  induction a generalizing b with
  | nil => exact absurd rfl hne
  | cons x xs ih =>
    match b, h with
    | y :: ys, h =>
      simp only [List.length_cons, Nat.add_right_cancel_iff] at h
      simp only [List.zipWith_cons_cons, foldJ_cons, ofBits_cons]
      by_cases hx : xs = []
      · subst hx
        have : ys = [] := List.eq_nil_of_length_eq_zero (by simpa using h.symm)
        subst this
        refine ⟨fromAB x y, by simp, ?_⟩
        simpa [ofBits] using good_fromAB x y
      · obtain ⟨s, hs, hg⟩ := ih ys h hx
        refine ⟨join (fromAB x y) s, by simp [hs], ?_⟩
        have := good_join (fromAB x y) s x y _ _ (good_fromAB x y) hg
        simpa [Int.natCast_add, Int.natCast_mul] using this

/-- the six comparison relations on integers -/
def Op.spec : Op → Int → Int → Bool
  | .eq, x, y => decide (x = y)
  | .ne, x, y => decide (x ≠ y)
  | .lt, x, y => decide (x < y)
  | .gt, x, y => decide (y < x)
  | .le, x, y => decide (x ≤ y)
  | .ge, x, y => decide (y ≤ x)

theorem post_of_good (op : Op) (s : St) (A B : Int) (h : Good s A B) : op.post s = op.spec A B := by
  obtain ⟨e, a⟩ := s
  cases op <;> cases e <;> cases a <;>
    simp [Good, Op.post, Op.spec, St.equal, St.notEqual, St.lessThan, St.greaterThan,
      St.lessThanEqualTo, St.greaterThanEqualTo, St.notA] at h ⊢ <;> omega

/-! ### signed mode -/

/-- two's-complement value of a bit string (index 0 least significant, last index = sign) -/
def sval : List Bool → Int
  | [] => 0
  | [m] => -(bit m : Int)
  | b :: c :: t => (bit b : Int) + 2 * sval (c :: t)

theorem flipMsb_single (m : Bool) : flipMsb [m] = [m ^^ true] := rfl

theorem flipMsb_cons (b c : Bool) (t : List Bool) : flipMsb (b :: c :: t) = b :: flipMsb (c :: t) := by
  simp [flipMsb, List.replicate_succ]

theorem flipMsb_length (l : List Bool) (h : l ≠ []) : (flipMsb l).length = l.length := by
  cases l with
  | nil => exact absurd rfl h
  | cons x xs => simp [flipMsb]

theorem ofBits_flipMsb (l : List Bool) (h : l ≠ []) :
    (ofBits (flipMsb l) : Int) = sval l + 2 ^ (l.length - 1) := by
  induction l with
  | nil => exact absurd rfl h
  | cons b t ih =>
    cases t with
    | nil => cases b <;> simp [flipMsb_single, ofBits, sval, bit]
    | cons c t =>
      have ih := ih (by simp)
      rw [flipMsb_cons, ofBits_cons, sval]
      simp only [Int.natCast_add, Int.natCast_mul, ih, List.length_cons, Nat.add_sub_cancel]
      rw [show t.length + 1 = (t.length + 1 - 1) + 1 by omega, Int.pow_succ]
      simp; omega

/-! ### multiplexer -/

theorem zipWith_mux_true (x y : List Bool) (h : x.length = y.length) :
    List.zipWith (fun x1 x0 => mux true x1 x0) x y = x := by
  induction x generalizing y with
  | nil => simp
  | cons a as ih =>
    match y, h with
    | b :: bs, h =>
      simp only [List.length_cons, Nat.add_right_cancel_iff] at h
      simp only [List.zipWith_cons_cons, ih bs h]
      cases a <;> cases b <;> rfl

theorem zipWith_mux_false (x y : List Bool) (h : x.length = y.length) :
    List.zipWith (fun x1 x0 => mux false x1 x0) x y = y := by
  induction x generalizing y with
  | nil => match y, h with | [], _ => simp
  | cons a as ih =>
    match y, h with
    | b :: bs, h =>
      simp only [List.length_cons, Nat.add_right_cancel_iff] at h
      simp only [List.zipWith_cons_cons, ih bs h]
      cases a <;> cases b <;> rfl

/-! ### naturals as bit strings -/

theorem toBits_length (w n : Nat) : (toBits w n).length = w := by
  induction w generalizing n with
  | zero => rfl
  | succ w ih => simp [toBits, ih]

theorem ofBits_toBits (w n : Nat) (h : n < 2 ^ w) : ofBits (toBits w n) = n := by
  induction w generalizing n with
  | zero => simp [toBits, ofBits]; omega
  | succ w ih =>
    have : n / 2 < 2 ^ w := by rw [Nat.pow_succ] at h; omega
    simp only [toBits, ofBits, ih _ this]
    by_cases h2 : n % 2 = 1 <;> simp [h2] <;> omega

/-- the integer a `w`-bit pattern `n` denotes in two's complement -/
def toInt (w n : Nat) : Int := if n < 2 ^ (w - 1) then (n : Int) else (n : Int) - 2 ^ w

theorem sval_toBits (w n : Nat) (hw : 1 ≤ w) (h : n < 2 ^ w) : sval (toBits w n) = toInt w n := by
  induction w generalizing n with
  | zero => omega
  | succ w ih =>
    cases w with
    | zero =>
      have : n = 0 ∨ n = 1 := by omega
      rcases this with rfl | rfl <;> simp [toBits, sval, bit, toInt]
    | succ w =>
      have hlt : n / 2 < 2 ^ (w + 1) := by rw [Nat.pow_succ] at h; omega
      have ih := ih (n / 2) (by omega) hlt
      have hunf : toBits (w + 1 + 1) n = (n % 2 == 1) :: toBits (w + 1) (n / 2) := rfl
      have hunf2 : toBits (w + 1) (n / 2) = (n / 2 % 2 == 1) :: toBits w (n / 2 / 2) := rfl
      rw [hunf, hunf2, sval, ← hunf2, ih]
      simp only [toInt, Nat.add_sub_cancel, bit]
      have e1 : (2 : Int) ^ (w + 1 + 1) = 2 * 2 ^ (w + 1) := by rw [Int.pow_succ]; omega
      have e2 : (2 : Nat) ^ (w + 1) = 2 * 2 ^ w := by rw [Nat.pow_succ]; omega
      have e3 : (2 : Int) ^ (w + 1) = 2 * 2 ^ w := by rw [Int.pow_succ]; omega
      by_cases h2 : n % 2 = 1 <;> by_cases h3 : n / 2 < 2 ^ w <;>
        simp [h2, h3] <;> split <;> omega

end CCV.Compare
