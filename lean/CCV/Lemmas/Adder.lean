import CCV.Model.Adder
/-
  Carry-lookahead correctness for the model of adder.rs: composition of (propagate, generate)
  pairs, the bottom-up segment tree (`shrink`), the top-down pass (`descendStep`) and the link to
  integer addition.  Core tactics only.
-/
namespace CCV.Adder

/-- carry after a segment list, starting from carry-in `c`. -/
def run (c : Bool) (l : List PG) : Bool := l.foldl (fun c x => applyPG x c) c

/-- the first `k` prefix carries of `l` with carry-in `c`: `[run c (l.take 0), …, run c (l.take (k-1))]`. -/
def prefixCarries (c : Bool) : List PG → Nat → List Bool
  | _, 0 => []
  | [], k + 1 => c :: prefixCarries c [] k
  | x :: l, k + 1 => c :: prefixCarries (applyPG x c) l k

/-- neighbouring segments joined. -/
def pairUp : List PG → List PG
  | a :: b :: t => joinPG a b :: pairUp t
  | _ => []

theorem applyPG_join (a b : PG) (c : Bool) : applyPG (joinPG a b) c = applyPG b (applyPG a c) := by
  rcases a with ⟨ap, ag⟩; rcases b with ⟨bp, bg⟩
  cases ap <;> cases ag <;> cases bp <;> cases bg <;> cases c <;> rfl

/-- the composition of (propagate, generate) pairs is associative. -/
theorem joinPG_assoc (a b c : PG) : joinPG (joinPG a b) c = joinPG a (joinPG b c) := by
  rcases a with ⟨ap, ag⟩; rcases b with ⟨bp, bg⟩; rcases c with ⟨cp, cg⟩
  cases ap <;> cases ag <;> cases bp <;> cases bg <;> cases cp <;> cases cg <;> rfl

@[simp] theorem run_nil (c : Bool) : run c [] = c := rfl
@[simp] theorem run_cons (c : Bool) (x : PG) (l : List PG) : run c (x :: l) = run (applyPG x c) l := rfl

@[simp] theorem prefixCarries_zero (c : Bool) (l : List PG) : prefixCarries c l 0 = [] := by
  cases l <;> rfl

theorem prefixCarries_one (c : Bool) (l : List PG) : prefixCarries c l 1 = [c] := by
  cases l <;> simp [prefixCarries]

@[simp] theorem prefixCarries_length (c : Bool) (l : List PG) (k : Nat) : (prefixCarries c l k).length = k := by
  induction k generalizing c l with
  | zero => simp
  | succ k ih => cases l <;> simp [prefixCarries, ih]

theorem everyOther_cons_drop (b : α) (t : List α) : everyOther (b :: t) = b :: everyOther (t.drop 1) := by
  cases t <;> simp [everyOther]

theorem zip_everyOther_eq_pairUp (l : List PG) :
    List.zipWith joinPG (everyOther l) (everyOther (l.drop 1)) = pairUp l := by
  induction l using pairUp.induct with
  | case1 a b t ih =>
    simp only [everyOther, List.drop_succ_cons, List.drop_zero, pairUp]
    rw [everyOther_cons_drop]
    simp only [List.zipWith_cons_cons, ih]
  | case2 l h =>
    match l, h with
    | [], _ => simp [everyOther, pairUp]
    | [a], _ => simp [everyOther, pairUp]
    | a :: b :: t, h => exact absurd rfl (h a b t)

theorem pairUp_length (l : List PG) : (pairUp l).length = l.length / 2 := by
  induction l using pairUp.induct with
  | case1 a b t ih => simp [pairUp, ih]; omega
  | case2 l h =>
    match l, h with
    | [], _ => simp [pairUp]
    | [a], _ => simp [pairUp]
    | a :: b :: t, h => exact absurd rfl (h a b t)

theorem pairUp_take (l : List PG) (j : Nat) : pairUp (l.take (2 * j)) = (pairUp l).take j := by
  induction j generalizing l with
  | zero => simp [pairUp]
  | succ j ih =>
    match l with
    | [] => simp [pairUp]
    | [a] => simp [pairUp, show 2 * (j + 1) = (2 * j + 1) + 1 by omega]
    | a :: b :: t =>
      simp only [show 2 * (j + 1) = (2 * j + 1) + 1 by omega, List.take_succ_cons, pairUp, ih]

theorem run_pairUp (c : Bool) (l : List PG) (h : l.length % 2 = 0) : run c (pairUp l) = run c l := by
  induction l using pairUp.induct generalizing c with
  | case1 a b t ih =>
    simp only [pairUp, run_cons, applyPG_join]
    apply ih
    simp at h; omega
  | case2 l hl =>
    match l, hl with
    | [], _ => rfl
    | [a], _ => simp at h
    | a :: b :: t, hl => exact absurd rfl (hl a b t)

theorem prefixCarries_take (c : Bool) (l : List PG) (j K : Nat) (h : K ≤ j + 1) :
    prefixCarries c (l.take j) K = prefixCarries c l K := by
  induction K generalizing c l j with
  | zero => simp
  | succ K ih =>
    match l, j with
    | [], _ => simp
    | x :: l, 0 =>
      have : K = 0 := by omega
      subst this
      simp [prefixCarries]
    | x :: l, j + 1 =>
      simp only [List.take_succ_cons, prefixCarries]
      rw [ih]; omega

/-- one round of the top-down pass, against the joined layer. -/
theorem step_pairUp (l : List PG) (K : Nat) (c : Bool) (h : 2 * K ≤ l.length + 1) :
    interleave (prefixCarries c (pairUp l) K)
        (List.zipWith applyPG (everyOther l) (prefixCarries c (pairUp l) K))
      = prefixCarries c l (2 * K) := by
  induction K generalizing l c with
  | zero => simp [interleave]
  | succ K ih =>
    match l with
    | [] => simp at h; omega
    | [x] =>
      have : K = 0 := by simp at h; omega
      subst this
      simp [pairUp, prefixCarries, everyOther, interleave]
    | x :: y :: t =>
      have h' : 2 * K ≤ t.length + 1 := by simp at h; omega
      have := ih t (applyPG y (applyPG x c)) h'
      simp only [pairUp, prefixCarries, everyOther, List.zipWith_cons_cons, interleave, applyPG_join,
        show 2 * (K + 1) = (2 * K + 1) + 1 by omega]
      rw [this]

theorem subSlice_zero_all (l : List α) : subSlice 0 l.length l = everyOther l := by
  simp [subSlice]

theorem shrink_eq (ov : Bool) (l : List PG) :
    shrink ov l = pairUp (l.take ((if ov then l.length / 2 else (l.length - 1) / 2) * 2)) := by
  simp only [shrink, subSlice, List.drop_zero]
  rw [zip_everyOther_eq_pairUp]

theorem shrink_length (ov : Bool) (l : List PG) :
    (shrink ov l).length = if ov then l.length / 2 else (l.length - 1) / 2 := by
  rw [shrink_eq, pairUp_length, List.length_take]
  cases ov <;> simp <;> omega

/-- one round of the top-down pass: from the prefix carries of the next layer to those of this one. -/
theorem descendStep_shrink (ov : Bool) (l : List PG) (K : Nat) (c : Bool) (h : 2 * K ≤ l.length + 1) :
    descendStep (prefixCarries c (shrink ov l) K) l = prefixCarries c l (2 * K) := by
  unfold descendStep
  rw [subSlice_zero_all, shrink_eq, Nat.mul_comm _ 2, pairUp_take, prefixCarries_take]
  · exact step_pairUp l K c h
  · cases ov <;> simp <;> omega

theorem descend_cons (top : List PG) (below : List (List PG)) (cs : List Bool) :
    descend (top :: below) cs = descend below (descendStep cs top) := rfl

/-- bottom-up then top-down, without the overflow bit: layers of length `2^(i+1) - 1`. -/
theorem build_descend_nov (fuel : Nat) : ∀ (top : List PG) (below : List (List PG)) (i : Nat),
    top.length + 1 = 2 ^ (i + 1) → top.length ≤ fuel →
    descend (buildNodes false fuel (top :: below)) [false]
      = descend below (prefixCarries false top (top.length + 1)) := by
  induction fuel with
  | zero =>
    intro top below i h hf
    have : 2 ^ (i + 1) ≥ 2 := by
      have := Nat.two_pow_pos i; rw [Nat.pow_succ]; omega
    omega
  | succ f ih =>
    intro top below i h hf
    have hpos : 2 ^ i ≥ 1 := Nat.two_pow_pos _
    rw [Nat.pow_succ] at h
    by_cases hlen : top.length > 1
    · simp only [buildNodes, hlen, if_true]
      match i with
      | 0 => simp at h; omega
      | i' + 1 =>
        rw [Nat.pow_succ] at h
        have hl : (shrink false top).length = (top.length - 1) / 2 := by simp [shrink_length]
        rw [ih (shrink false top) (top :: below) i' (by rw [hl, Nat.pow_succ]; omega) (by omega)]
        rw [descend_cons, descendStep_shrink false top _ false (by omega)]
        congr 2
        omega
    · simp only [buildNodes, hlen, if_false]
      have h1 : top.length = 1 := by omega
      rw [descend_cons]
      have := descendStep_shrink false top 1 false (by omega)
      rw [prefixCarries_one] at this
      rw [this, h1]

/-- bottom-up then top-down with the overflow bit: layers of length `2^i`; the root summarises the word. -/
theorem build_descend_ov (fuel : Nat) : ∀ (top : List PG) (below : List (List PG)) (i : Nat),
    top.length = 2 ^ i → top.length ≤ fuel →
    ∃ root rest, buildNodes true fuel (top :: below) = root :: rest ∧
      (List.zipWith applyPG root [false]).headD false = run false top ∧
      descend rest [false] = descend below (prefixCarries false top top.length) := by
  induction fuel with
  | zero =>
    intro top below i h hf
    have : 2 ^ i ≥ 1 := Nat.two_pow_pos _
    omega
  | succ f ih =>
    intro top below i h hf
    by_cases hlen : top.length > 1
    · simp only [buildNodes, hlen, if_true]
      match i with
      | 0 => simp at h; omega
      | i' + 1 =>
        rw [Nat.pow_succ] at h
        have hl : (shrink true top).length = top.length / 2 := by simp [shrink_length]
        obtain ⟨root, rest, hb, hr, hd⟩ := ih (shrink true top) (top :: below) i' (by omega) (by omega)
        refine ⟨root, rest, hb, ?_, ?_⟩
        · rw [hr, shrink_eq]
          simp only [if_true]
          rw [List.take_of_length_le (by omega)]
          exact run_pairUp false top (by omega)
        · rw [hd, descend_cons, hl, descendStep_shrink true top _ false (by omega)]
          congr 2
          omega
    · simp only [buildNodes, hlen, if_false]
      have hpos : 2 ^ i ≥ 1 := Nat.two_pow_pos _
      have h1 : top.length = 1 := by omega
      refine ⟨top, below, rfl, ?_, ?_⟩
      · match top, h1 with
        | [x], _ => simp
      · rw [h1, prefixCarries_one]

theorem isPow2Aux_pow (m : Nat) : ∀ fuel, 2 ^ m ≤ fuel → isPow2Aux fuel (2 ^ m) = true := by
  induction m with
  | zero =>
    intro fuel h
    match fuel with
    | 0 => simp at h
    | f + 1 => simp [isPow2Aux]
  | succ m ih =>
    intro fuel h
    have hpos : 2 ^ m ≥ 1 := Nat.two_pow_pos _
    rw [Nat.pow_succ] at h ⊢
    match fuel with
    | 0 => omega
    | f + 1 =>
      have h1 : ¬ (2 ^ m * 2 = 1) := by omega
      have h2 : (2 ^ m * 2) % 2 = 0 ∧ 2 ^ m * 2 ≠ 0 := by omega
      have h3 : 2 ^ m * 2 / 2 = 2 ^ m := by omega
      simp only [isPow2Aux, h1, if_false, h3]
      rw [if_pos h2]
      exact ih f (by omega)

theorem isPow2_pow (m : Nat) : isPow2 (2 ^ m) = true := isPow2Aux_pow m _ (Nat.le_refl _)

/-- `calculate_carry_bits` computes all prefix carries and, when asked, the carry out of the word. -/
theorem carryCore_spec (pg : List PG) (ov : Bool) (m : Nat) (h : pg.length = 2 ^ m) :
    carryCore pg ov = (prefixCarries false pg pg.length, if ov then some (run false pg) else none) := by
  have hpos : 2 ^ m ≥ 1 := Nat.two_pow_pos _
  cases ov with
  | true =>
    obtain ⟨root, rest, hb, hr, hd⟩ := build_descend_ov pg.length pg [] m h (Nat.le_refl _)
    simp only [carryCore, Bool.true_eq_false, false_and, if_false, true_or, if_true, hb, hr, hd]
    rfl
  | false =>
    by_cases h1 : pg.length = 1
    · simp [carryCore, h1, prefixCarries_one]
    · by_cases h2 : pg.length > 2
      · simp only [carryCore, h1, and_false, if_false, Bool.false_eq_true, false_or, h2, if_true]
        match m with
        | 0 => simp at h; omega
        | 1 => simp at h; omega
        | m' + 2 =>
          rw [Nat.pow_succ, Nat.pow_succ] at h
          have hm : 2 ^ m' ≥ 1 := Nat.two_pow_pos _
          obtain ⟨f, hf⟩ : ∃ f, pg.length = f + 1 := ⟨pg.length - 1, by omega⟩
          rw [hf]
          simp only [buildNodes, show pg.length > 1 by omega, if_true]
          have hl : (shrink false pg).length = (pg.length - 1) / 2 := by simp [shrink_length]
          rw [build_descend_nov f (shrink false pg) [pg] m' (by rw [hl, Nat.pow_succ]; omega) (by omega)]
          rw [descend_cons, descendStep_shrink false pg _ false (by omega)]
          simp only [descend, List.foldl_nil]
          rw [← hf]
          congr 2
          omega
      · have h3 : pg.length = 2 := by
          match m with
          | 0 => simp at h; omega
          | m' + 1 =>
            rw [Nat.pow_succ] at h
            have hm : 2 ^ m' ≥ 1 := Nat.two_pow_pos _
            omega
        simp only [carryCore, h1, and_false, if_false, Bool.false_eq_true, false_or, h2]
        have := descendStep_shrink false pg 1 false (by omega)
        rw [prefixCarries_one] at this
        simp only [descend, List.foldl_cons, List.foldl_nil]
        rw [this, h3]


/-! ### link to integer addition -/

theorem val_lt (l : List Bool) : val l < 2 ^ l.length := by
  induction l with
  | nil => simp [val]
  | cons b t ih =>
    simp only [val, List.length_cons, Nat.pow_succ]
    cases b <;> simp <;> omega

theorem full_adder (x y c : Bool) :
    (xor c (xor x y)).toNat + 2 * (applyPG (xor x y, x && y) c).toNat = x.toNat + y.toNat + c.toNat := by
  cases x <;> cases y <;> cases c <;> rfl

/-- ripple-carry reading of the prefix carries: sum bits and carry out encode `a + b + c`. -/
theorem ripple (a : List Bool) : ∀ (b : List Bool) (c : Bool), a.length = b.length →
    val (List.zipWith xor (prefixCarries c (List.zip (List.zipWith xor a b) (List.zipWith and a b)) a.length)
          (List.zipWith xor a b))
      + 2 ^ a.length * (run c (List.zip (List.zipWith xor a b) (List.zipWith and a b))).toNat
      = val a + val b + c.toNat := by
  induction a with
  | nil =>
    intro b c h
    match b, h with
    | [], _ => simp [val]
  | cons x a ih =>
    intro b c h
    match b, h with
    | y :: b, h =>
      have hl : a.length = b.length := by simpa using h
      have := ih b (applyPG (xor x y, x && y) c) hl
      have fa := full_adder x y c
      simp only [List.zipWith_cons_cons, List.zip_cons_cons, List.length_cons, prefixCarries, val,
        run_cons, Nat.pow_succ]
      generalize val (List.zipWith xor (prefixCarries (applyPG (xor x y, x && y) c)
        (List.zip (List.zipWith xor a b) (List.zipWith and a b)) a.length) (List.zipWith xor a b)) = S at *
      generalize (run (applyPG (xor x y, x && y) c) (List.zip (List.zipWith xor a b) (List.zipWith and a b))).toNat = R at *
      generalize (applyPG (xor x y, x && y) c).toNat = C' at *
      rw [Nat.mul_comm (2 ^ a.length) 2, Nat.mul_assoc]
      generalize 2 ^ a.length * R = P at *
      omega

theorem addCore_length (ov : Bool) (a b : List Bool) (m : Nat) (ha : a.length = 2 ^ m) (hb : b.length = 2 ^ m) :
    (addCore ov a b).1.length = 2 ^ m := by
  have hz : (List.zip (List.zipWith xor a b) (List.zipWith and a b)).length = 2 ^ m := by simp [ha, hb]
  simp only [addCore, carryCore_spec _ ov m hz]
  simp [ha, hb]

/-- the tree adder on words of `2^m` bits: sum modulo `2^n` and the true carry out. -/
theorem addCore_spec (ov : Bool) (a b : List Bool) (m : Nat) (ha : a.length = 2 ^ m) (hb : b.length = 2 ^ m) :
    val (addCore ov a b).1 = (val a + val b) % 2 ^ (2 ^ m) ∧
    (addCore ov a b).2 = if ov then some (decide ((val a + val b) / 2 ^ (2 ^ m) = 1)) else none := by
  have hz : (List.zip (List.zipWith xor a b) (List.zipWith and a b)).length = 2 ^ m := by simp [ha, hb]
  have hr := ripple a b false (by rw [ha, hb])
  have hlt := val_lt (addCore ov a b).1
  rw [addCore_length ov a b m ha hb] at hlt
  simp only [addCore, carryCore_spec _ ov m hz] at hlt ⊢
  rw [hz, ← ha] at *
  simp only [Bool.toNat_false, Nat.add_zero] at hr
  generalize val (List.zipWith xor (prefixCarries false (List.zip (List.zipWith xor a b) (List.zipWith and a b)) a.length)
    (List.zipWith xor a b)) = S at *
  generalize run false (List.zip (List.zipWith xor a b) (List.zipWith and a b)) = r at *
  rw [← hr]
  constructor
  · rw [Nat.add_mul_mod_self_left, Nat.mod_eq_of_lt hlt]
  · have hp : 0 < 2 ^ a.length := Nat.two_pow_pos _
    rw [Nat.add_mul_div_left _ _ hp, Nat.div_eq_of_lt hlt]
    cases ov <;> cases r <;> simp

theorem val_bitsOf (n x : Nat) : val (bitsOf n x) = x % 2 ^ n := by
  induction n generalizing x with
  | zero => simp [bitsOf, val, Nat.mod_one]
  | succ n ih =>
    simp only [bitsOf, val, ih, Nat.pow_succ]
    have : (x % 2 == 1).toNat = x % 2 := by
      rcases Nat.mod_two_eq_zero_or_one x with h | h <;> simp [h]
    rw [this, Nat.mul_comm (2 ^ n) 2, Nat.mod_mul]

@[simp] theorem bitsOf_length (n x : Nat) : (bitsOf n x).length = n := by
  induction n generalizing x with
  | zero => rfl
  | succ n ih => simp [bitsOf, ih]

end CCV.Adder
