import CCV.Lemmas.Optimizer
/-
  Invariants of the loops of the duplicates / dangling / constants passes (C06, C04(b)).
-/
namespace CCV.Optimizer

theorem getElem?_snoc_cases {α} {l : List α} {x y : α} {k : Nat} (h : (l ++ [x])[k]? = some y) :
    l[k]? = some y ∨ (k = l.length ∧ x = y) := by
  rcases Nat.lt_or_ge k l.length with h' | h'
  · left; rwa [List.getElem?_append_left h'] at h
  · right
    rw [List.getElem?_append_right h'] at h
    rcases Nat.eq_zero_or_pos (k - l.length) with h0 | h0
    · rw [h0] at h; simp at h; exact ⟨by omega, h⟩
    · have : k - l.length = (k - l.length - 1) + 1 := by omega
      rw [this] at h; simp at h

theorem getElem?_append_some {α} {l : List α} {y : α} {k : Nat} (ext : List α) (h : l[k]? = some y) :
    (l ++ ext)[k]? = some y := by
  have : k < l.length := by
    rcases Nat.lt_or_ge k l.length with h' | h'
    · exact h'
    · rw [List.getElem?_eq_none_iff.mpr h'] at h; cases h
  rw [List.getElem?_append_left this]; exact h

theorem lt_of_getElem?_some {α} {l : List α} {y : α} {k : Nat} (h : l[k]? = some y) : k < l.length := by
  rcases Nat.lt_or_ge k l.length with h' | h'
  · exact h'
  · rw [List.getElem?_eq_none_iff.mpr h'] at h; cases h

/-- dependencies of the node at the end of a closed prefix precede it -/
theorem closed_deps_lt {pre l : List Node} {n : Node} (h : Closed (pre ++ n :: l)) :
    ∀ d ∈ n.deps, d < pre.length := by
  intro d hd
  exact h pre.length n (by simp) d hd

/- ---------------- facts shared by all copying passes ---------------- -/

/-- bookkeeping shared by the three passes: besides `Refines`, every result node is the image of
    a source node with the same operation and annotations; randomising / PRF / input nodes are
    never merged with another node -/
structure Track (c : Bool) (pre out : List Node) (m : Mapping) : Prop where
  len : m.length = pre.length
  ref : Refines pre out m
  nin : countIn out = countIn pre
  /-- the Input nodes, in order, with type and name -/
  ins : inputsOf out = inputsOf pre
  /-- images of non-constant-folded nodes keep operation, annotations, name, type -/
  same : ∀ i k n, Maps m i k → pre[i]? = some n → ∃ n', out[k]? = some n' ∧
    (n'.op = n.op ∧ n'.ann = n.ann ∨ (c = true ∧ n'.op.isConstant ∧ n.ann = [] ∧ n.op.foldable))
  inj : ∀ i k n, Maps m i k → pre[i]? = some n →
    (n.op.isRandom ∨ n.op.isPrf ∨ n.op.isInput) → ∀ j, Maps m j k → j = i
  surj : ∀ k, k < out.length → ∃ i, Maps m i k

theorem Track.nil {c : Bool} : Track c [] [] [] :=
  ⟨rfl, Refines.nil, rfl, rfl, by intro i k n h; simp [Maps] at h, by intro i k n h; simp [Maps] at h,
   by intro k h; simp at h⟩

/-- step: the node is copied to the end of the result -/
theorem Track.copy {c : Bool} {pre out : List Node} {m : Mapping} (T : Track c pre out m) (n : Node)
    (hd : ∀ d ∈ n.deps, ∃ kd, Maps m d kd) :
    Track c (pre ++ [n]) (out ++ [n.remap m]) (m ++ [some out.length]) := by
  have hdlt : ∀ d ∈ n.deps, look m d < out.length := by
    intro d h; obtain ⟨kd, hkd⟩ := hd d h
    rw [look_of_maps hkd]; exact (T.ref.bound d kd hkd).2
  have hcl : Closed (out ++ [n.remap m]) := by
    apply closed_snoc T.ref.closedOut
    intro d h
    simp only [Node.remap, List.mem_map] at h
    obtain ⟨d0, hd0, rfl⟩ := h
    exact hdlt d0 hd0
  refine ⟨by simp [T.len], ?_, ?_, ?_, ?_, ?_, ?_⟩
  · apply T.ref.extend T.len n [n.remap m] (some out.length) hcl
    intro k hk
    cases hk
    refine ⟨by simp, ⟨n.remap m, by simp, Or.inl ⟨rfl, rfl, hd⟩⟩, fun _ => ?_⟩
    rw [List.take_append_of_le_length (Nat.le_refl _), List.take_length]; exact T.nin
  · rw [countIn_append, countIn_append, T.nin]
    cases h : n.op.isInput <;> simp [countIn, Node.remap, List.filter, h]
  · have := T.ins
    unfold inputsOf at *
    rw [List.filter_append, List.filter_append, List.map_append, List.map_append, this]
    cases h : n.op.isInput <;> simp [Node.remap, List.filter, h]
  · intro i k n0 h hn0
    rcases maps_append_cases h with h | ⟨hi, hx⟩
    · have hi := (T.ref.bound i k h).1
      rw [List.getElem?_append_left hi] at hn0
      obtain ⟨n', h1, h2⟩ := T.same i k n0 h hn0
      exact ⟨n', getElem?_append_some _ h1, h2⟩
    · cases hx; subst hi
      rw [T.len] at hn0; simp at hn0; subst hn0
      exact ⟨n.remap m, by simp, Or.inl ⟨rfl, rfl⟩⟩
  · intro i k n0 h hn0 hsp j hj
    rcases maps_append_cases h with h | ⟨hi, hx⟩
    · have hi := (T.ref.bound i k h).1
      rw [List.getElem?_append_left hi] at hn0
      rcases maps_append_cases hj with hj | ⟨hj, hx⟩
      · exact T.inj i k n0 h hn0 hsp j hj
      · cases hx; have := (T.ref.bound i _ h).2; omega
    · cases hx
      rcases maps_append_cases hj with hj | ⟨hj, _⟩
      · have := (T.ref.bound j _ hj).2; omega
      · omega
  · intro k hk
    simp at hk
    rcases Nat.lt_or_ge k out.length with h | h
    · obtain ⟨i, hi⟩ := T.surj k h; exact ⟨i, maps_append_left hi⟩
    · have : k = out.length := by omega
      subst this; exact ⟨m.length, maps_append_new m _⟩

/-- step: the node is identified with an existing result node `k` carrying the same operation,
    annotations and re-mapped dependencies (it is not a randomising / PRF / input node) -/
theorem Track.alias {c : Bool} {pre out : List Node} {m : Mapping} (T : Track c pre out m) (n n' : Node) (k : Nat)
    (hd : ∀ d ∈ n.deps, ∃ kd, Maps m d kd) (hk : out[k]? = some n')
    (hop : n'.op = n.op) (hann : n'.ann = n.ann) (hdeps : n'.deps = n.deps.map (look m))
    (hns : ¬ (n.op.isRandom ∨ n.op.isPrf ∨ n.op.isInput)) :
    Track c (pre ++ [n]) out (m ++ [some k]) := by
  have hklt := lt_of_getElem?_some hk
  refine ⟨by simp [T.len], ?_, ?_, ?_, ?_, ?_, ?_⟩
  · have := T.ref.extend T.len n [] (some k) (by simpa using T.ref.closedOut) (by
      intro k' hk'; cases hk'
      refine ⟨by simpa using hklt, ⟨n', by simpa using hk, Or.inl ⟨hop, hdeps, hd⟩⟩, fun hin => ?_⟩
      exact absurd (Or.inr (Or.inr hin)) hns)
    simpa using this
  · rw [countIn_append, T.nin]
    have : n.op.isInput = false := by
      cases h : n.op.isInput
      · rfl
      · exact absurd (Or.inr (Or.inr h)) hns
    simp [countIn, this]
  · have hi : n.op.isInput = false := by
      cases h : n.op.isInput
      · rfl
      · exact absurd (Or.inr (Or.inr h)) hns
    have := T.ins
    unfold inputsOf at *
    rw [List.filter_append, List.map_append, this]; simp [List.filter, hi]
  · intro i k0 n0 h hn0
    rcases maps_append_cases h with h | ⟨hi, hx⟩
    · have hi := (T.ref.bound i k0 h).1
      rw [List.getElem?_append_left hi] at hn0
      exact T.same i k0 n0 h hn0
    · cases hx; subst hi
      rw [T.len] at hn0; simp at hn0; subst hn0
      exact ⟨n', hk, Or.inl ⟨hop, hann⟩⟩
  · intro i k0 n0 h hn0 hsp j hj
    rcases maps_append_cases h with h | ⟨hi, hx⟩
    · have hi := (T.ref.bound i k0 h).1
      rw [List.getElem?_append_left hi] at hn0
      rcases maps_append_cases hj with hj | ⟨hj, hx⟩
      · exact T.inj i k0 n0 h hn0 hsp j hj
      · -- the new node would be merged with a special node: impossible, the operations agree
        cases hx
        obtain ⟨n'', h1, h2⟩ := T.same i _ n0 h hn0
        rw [hk] at h1; cases h1
        rcases h2 with ⟨h2, _⟩ | ⟨_, h2, _, h3⟩
        · rw [← h2, hop] at hsp; exact absurd hsp hns
        · exfalso
          rcases hsp with hsp | hsp | hsp <;> cases hop0 : n0.op <;>
            simp_all [Op.isRandom, Op.isPrf, Op.isInput, Op.foldable]
    · cases hx; subst hi
      rw [T.len] at hn0; simp at hn0; subst hn0
      exact absurd hsp hns
  · intro k0 hk0
    obtain ⟨i, hi⟩ := T.surj k0 hk0; exact ⟨i, maps_append_left hi⟩

/-- a loop invariant that is preserved by one step on a closed graph holds after the loop -/
theorem fold_inv {σ : Type} (step : σ → Node → σ) (P : List Node → σ → Prop)
    (hstep : ∀ pre st n, P pre st → (∀ d ∈ n.deps, d < pre.length) → P (pre ++ [n]) (step st n)) :
    ∀ (l pre : List Node) (st : σ), Closed (pre ++ l) → P pre st → P (pre ++ l) (l.foldl step st) := by
  intro l
  induction l with
  | nil => intro pre st _ h; simpa using h
  | cons n l ih =>
    intro pre st hc h
    have h1 := hstep pre st n h (closed_deps_lt hc)
    have := ih (pre ++ [n]) (step st n) (by simpa using hc) h1
    simpa using this

/- ---------------- duplicates ---------------- -/

structure DInv (pre : List Node) (st : DSt) : Prop where
  tr : Track false pre st.out st.m
  total : ∀ i, i < pre.length → ∃ k, Maps st.m i k
  sigs : ∀ key k, sigGet key st.sigs = some k →
    ∃ n', st.out[k]? = some n' ∧ n'.deps = key.1 ∧ n'.ann = key.2.1 ∧ n'.op = key.2.2

theorem sigGet_append {key : Key} {l : List (Key × Nat)} {a : Key} {b k : Nat}
    (h : sigGet key (l ++ [(a, b)]) = some k) : sigGet key l = some k ∨ (a = key ∧ b = k) := by
  induction l with
  | nil =>
    simp only [List.nil_append, sigGet] at h
    split at h
    · right; exact ⟨by assumption, by simpa using h⟩
    · cases h
  | cons x l ih =>
    obtain ⟨xa, xb⟩ := x
    simp only [List.cons_append, sigGet] at h ⊢
    split
    · rename_i hx; rw [if_pos hx] at h; left; exact h
    · rename_i hx; rw [if_neg hx] at h; exact ih h

theorem total_snoc {pre : List Node} {m : Mapping} {n : Node} {k : Nat} (hlen : m.length = pre.length)
    (h : ∀ i, i < pre.length → ∃ k, Maps m i k) :
    ∀ i, i < (pre ++ [n]).length → ∃ k', Maps (m ++ [some k]) i k' := by
  intro i hi
  simp at hi
  rcases Nat.lt_or_ge i pre.length with h' | h'
  · obtain ⟨k', hk'⟩ := h i h'; exact ⟨k', maps_append_left hk'⟩
  · have : i = m.length := by omega
    subst this; exact ⟨k, maps_append_new m k⟩

theorem dupStep_inv (pre : List Node) (st : DSt) (n : Node) (I : DInv pre st)
    (hd : ∀ d ∈ n.deps, d < pre.length) : DInv (pre ++ [n]) (dupStep st n) := by
  have hmapped : ∀ d ∈ n.deps, ∃ kd, Maps st.m d kd := fun d h => I.total d (hd d h)
  cases hkey : nodeKey n (n.deps.map (look st.m)) with
  | none =>
    have e : dupStep st n =
        { st with out := st.out ++ [n.remap st.m], m := st.m ++ [some st.out.length] } := by
      simp [dupStep, hkey]
    rw [e]
    exact ⟨I.tr.copy n hmapped, total_snoc I.tr.len I.total, fun key k h => by
      obtain ⟨n', h1, h2⟩ := I.sigs key k h
      exact ⟨n', getElem?_append_some _ h1, h2⟩⟩
  | some key =>
    have hkeyeq : key = (n.deps.map (look st.m), n.ann, n.op) ∧
        ¬ (n.op.isRandom ∨ n.op.isPrf ∨ n.op.isInput) := by
      unfold nodeKey at hkey
      split at hkey
      · cases hkey
      · rename_i hns
        simp only [Option.some.injEq] at hkey
        refine ⟨hkey.symm, ?_⟩
        simp only [Bool.or_eq_true, not_or] at hns ⊢
        simp_all
    obtain ⟨hkeq, hns⟩ := hkeyeq
    cases hsig : sigGet key st.sigs with
    | some k =>
      have e : dupStep st n = { st with m := st.m ++ [some k] } := by
        simp [dupStep, hkey, hsig]
      rw [e]
      obtain ⟨n', h1, h2, h3, h4⟩ := I.sigs key k hsig
      subst hkeq
      exact ⟨I.tr.alias n n' k hmapped h1 h4 h3 h2 hns, total_snoc I.tr.len I.total, I.sigs⟩
    | none =>
      have e : dupStep st n =
          { out := st.out ++ [n.remap st.m], m := st.m ++ [some st.out.length],
            sigs := st.sigs ++ [(key, st.out.length)] } := by
        simp [dupStep, hkey, hsig]
      rw [e]
      refine ⟨I.tr.copy n hmapped, total_snoc I.tr.len I.total, fun key' k h => ?_⟩
      rcases sigGet_append h with h | ⟨h1, h2⟩
      · obtain ⟨n', h1, h2⟩ := I.sigs key' k h
        exact ⟨n', getElem?_append_some _ h1, h2⟩
      · subst h1 h2 hkeq
        exact ⟨n.remap st.m, by simp, rfl, rfl, rfl⟩

theorem duplicates_inv (g : Graph) (hc : Closed g.nodes) :
    DInv g.nodes (g.nodes.foldl dupStep ⟨[], [], []⟩) := by
  have := fold_inv dupStep DInv dupStep_inv g.nodes [] ⟨[], [], []⟩ (by simpa using hc)
    ⟨Track.nil, by intro i h; simp at h, by intro key k h; simp [sigGet] at h⟩
  simpa using this

/- ---------------- constants ---------------- -/

theorem foldable_not_special {op : Op} (h : op.foldable = true) :
    op.isInput = false ∧ op.isRandom = false ∧ op.isPrf = false := by
  cases op <;> simp_all [Op.foldable, Op.isInput, Op.isRandom, Op.isPrf]

/-- step: the node is replaced by a Constant node `n'` (existing at `k`, or appended) -/
theorem Track.toConst {pre out : List Node} {m : Mapping} (T : Track true pre out m) (n n' : Node)
    (ext : List Node) (k : Nat) (hext : ext = [] ∨ (ext = [n'] ∧ k = out.length))
    (hk : (out ++ ext)[k]? = some n') (hc : n'.op.isConstant = true) (hd0 : n'.deps = [])
    (hann : n.ann = []) (hf : n.op.foldable = true) (hwf : n.op.isConstant = true → n.deps = []) :
    Track true (pre ++ [n]) (out ++ ext) (m ++ [some k]) := by
  obtain ⟨hni, hnr, hnp⟩ := foldable_not_special hf
  have hklt := lt_of_getElem?_some hk
  have hcl : Closed (out ++ ext) := by
    rcases hext with rfl | ⟨rfl, _⟩
    · simpa using T.ref.closedOut
    · exact closed_snoc T.ref.closedOut (by rw [hd0]; intro d h; cases h)
  have hcount : countIn (out ++ ext) = countIn out := by
    rcases hext with rfl | ⟨rfl, _⟩
    · simp
    · rw [countIn_append]
      have : n'.op.isInput = false := by cases h : n'.op <;> simp_all [Op.isConstant, Op.isInput]
      simp [countIn, List.filter, this]
  have hold : ∀ k0, k0 < out.length → (out ++ ext)[k0]? = out[k0]? := fun k0 h =>
    List.getElem?_append_left h
  refine ⟨by simp [T.len], ?_, ?_, ?_, ?_, ?_, ?_⟩
  · apply T.ref.extend T.len n ext (some k) hcl
    intro k' hk'; cases hk'
    refine ⟨hklt, ⟨n', hk, ?_⟩, fun h => by rw [hni] at h; cases h⟩
    by_cases heq : n'.op = n.op
    · left
      have : n.deps = [] := hwf (by rw [← heq]; exact hc)
      refine ⟨heq, by rw [hd0, this]; rfl, by rw [this]; intro d h; cases h⟩
    · right; exact ⟨hc, heq, hd0, by simp [hni], by simp [hnr]⟩
  · rw [hcount, countIn_append, T.nin]; simp [countIn, List.filter, hni]
  · have := T.ins
    have hn'i : n'.op.isInput = false := by cases h : n'.op <;> simp_all [Op.isConstant, Op.isInput]
    unfold inputsOf at *
    rw [List.filter_append, List.filter_append, List.map_append, List.map_append, this]
    rcases hext with rfl | ⟨rfl, _⟩ <;> simp [List.filter, hni, hn'i]
  · intro i k0 n0 h hn0
    rcases maps_append_cases h with h | ⟨hi, hx⟩
    · have hi := (T.ref.bound i k0 h).1
      rw [List.getElem?_append_left hi] at hn0
      obtain ⟨n'', h1, h2⟩ := T.same i k0 n0 h hn0
      exact ⟨n'', getElem?_append_some _ h1, h2⟩
    · cases hx; subst hi
      rw [T.len] at hn0; simp at hn0; subst hn0
      exact ⟨n', hk, Or.inr ⟨rfl, hc, hann, hf⟩⟩
  · intro i k0 n0 h hn0 hsp j hj
    rcases maps_append_cases h with h | ⟨hi, hx⟩
    · have hi := (T.ref.bound i k0 h).1
      rw [List.getElem?_append_left hi] at hn0
      rcases maps_append_cases hj with hj | ⟨hj, hx⟩
      · exact T.inj i k0 n0 h hn0 hsp j hj
      · cases hx
        obtain ⟨n'', h1, h2⟩ := T.same i _ n0 h hn0
        have hb := (T.ref.bound i _ h).2
        rw [hold _ hb, h1] at hk; cases hk
        exfalso
        rcases h2 with ⟨h2, _⟩ | ⟨_, _, _, h3⟩
        · rw [h2] at hc
          rcases hsp with hsp | hsp | hsp <;> cases hop0 : n0.op <;>
            simp_all [Op.isRandom, Op.isPrf, Op.isInput, Op.isConstant]
        · have := foldable_not_special h3
          rcases hsp with hsp | hsp | hsp <;> simp_all
    · cases hx; subst hi
      rw [T.len] at hn0; simp at hn0; subst hn0
      exfalso; rcases hsp with hsp | hsp | hsp <;> simp_all
  · intro k0 hk0
    rcases Nat.lt_or_ge k0 out.length with h | h
    · obtain ⟨i, hi⟩ := T.surj k0 h; exact ⟨i, maps_append_left hi⟩
    · rcases hext with rfl | ⟨rfl, rfl⟩
      · simp at hk0; omega
      · simp at hk0
        have : k0 = out.length := by omega
        subst this; exact ⟨m.length, maps_append_new m _⟩

structure CInv (pre : List Node) (st : CSt) : Prop where
  tr : Track true pre st.out st.m
  total : ∀ i, i < pre.length → ∃ k, Maps st.m i k
  cache : ∀ vid k, assocGet vid st.cache = some k →
    ∃ n' num, st.out[k]? = some n' ∧ n'.op = .constant vid num ∧ n'.deps = []

theorem assocGet_append {key : Nat} {l : List (Nat × Nat)} {a b k : Nat}
    (h : assocGet key (l ++ [(a, b)]) = some k) : assocGet key l = some k ∨ (a = key ∧ b = k) := by
  induction l with
  | nil =>
    simp only [List.nil_append, assocGet] at h
    split at h
    · right; exact ⟨by assumption, by simpa using h⟩
    · cases h
  | cons x l ih =>
    obtain ⟨xa, xb⟩ := x
    simp only [List.cons_append, assocGet] at h ⊢
    split
    · rename_i hx; rw [if_pos hx] at h; left; exact h
    · rename_i hx; rw [if_neg hx] at h; exact ih h

theorem resolveConst_inv (pre : List Node) (st : CSt) (n : Node) (vid : Nat) (num : Option Nat)
    (I : CInv pre st) (hann : n.ann = []) (hf : n.op.foldable = true)
    (hwf : n.op.isConstant = true → n.deps = []) :
    CInv (pre ++ [n]) (resolveConst st (.constant vid num) n.name n.ty vid) := by
  cases hc : assocGet vid st.cache with
  | some k =>
    have e : resolveConst st (.constant vid num) n.name n.ty vid =
        { st with m := st.m ++ [some k], isConst := st.isConst ++ [true] } := by
      simp [resolveConst, hc]
    rw [e]
    obtain ⟨n', num', h1, h2, h3⟩ := I.cache vid k hc
    have := I.tr.toConst n n' [] k (Or.inl rfl) (by simpa using h1) (by simp [h2, Op.isConstant]) h3
      hann hf hwf
    exact ⟨by simpa using this, total_snoc I.tr.len I.total, I.cache⟩
  | none =>
    have e : resolveConst st (.constant vid num) n.name n.ty vid =
        { out := st.out ++ [{ op := .constant vid num, deps := [], ann := [], name := n.name, ty := n.ty }],
          m := st.m ++ [some st.out.length], cache := st.cache ++ [(vid, st.out.length)],
          isConst := st.isConst ++ [true] } := by
      simp [resolveConst, hc]
    rw [e]
    refine ⟨I.tr.toConst n _ [_] st.out.length (Or.inr ⟨rfl, rfl⟩) (by simp) (by simp [Op.isConstant])
      rfl hann hf hwf, total_snoc I.tr.len I.total, fun vid' k h => ?_⟩
    rcases assocGet_append h with h | ⟨h1, h2⟩
    · obtain ⟨n', num', h1, h2⟩ := I.cache vid' k h
      exact ⟨n', num', getElem?_append_some _ h1, h2⟩
    · subst h1 h2
      exact ⟨{ op := .constant vid num, deps := [], ann := [], name := n.name, ty := n.ty }, num,
        by simp, rfl, rfl⟩

theorem constStep_inv (oracle : Nat → Nat × Option Nat) (pre : List Node) (st : CSt) (n : Node)
    (I : CInv pre st) (hd : ∀ d ∈ n.deps, d < pre.length)
    (hok : n.op.isConstant = true → n.ann = [] ∧ n.deps = []) :
    CInv (pre ++ [n]) (constStep oracle st n) := by
  have hmapped : ∀ d ∈ n.deps, ∃ kd, Maps st.m d kd := fun d h => I.total d (hd d h)
  have hcopy : CInv (pre ++ [n])
      { st with out := st.out ++ [n.remap st.m], m := st.m ++ [some st.out.length],
                isConst := st.isConst ++ [false] } :=
    ⟨I.tr.copy n hmapped, total_snoc I.tr.len I.total, fun vid k h => by
      obtain ⟨n', num', h1, h2⟩ := I.cache vid k h
      exact ⟨n', num', getElem?_append_some _ h1, h2⟩⟩
  unfold constStep
  split
  · rename_i vid num hop
    have hc : n.op.isConstant = true := by simp [hop, Op.isConstant]
    exact resolveConst_inv pre st n vid num I (hok hc).1 (by simp [hop, Op.foldable])
      (fun _ => (hok hc).2)
  · rename_i hnc
    split
    · rename_i hcond
      exact resolveConst_inv pre st n _ _ I hcond.2.2 hcond.1 (fun h => by
        exfalso; cases hop : n.op <;> simp_all [Op.isConstant])
    · exact hcopy

/-- well-formedness the constants pass relies on: Constant nodes carry no annotations (otherwise the
    pass returns `Err`, see `constantsOk`) and have no dependencies -/
def ConstWF (ns : List Node) : Prop :=
  ∀ n ∈ ns, n.op.isConstant = true → n.ann = [] ∧ n.deps = []

theorem fold_inv' {σ : Type} (step : σ → Node → σ) (P : List Node → σ → Prop) (Q : Node → Prop)
    (hstep : ∀ pre st n, P pre st → (∀ d ∈ n.deps, d < pre.length) → Q n → P (pre ++ [n]) (step st n)) :
    ∀ (l pre : List Node) (st : σ), Closed (pre ++ l) → (∀ n ∈ l, Q n) → P pre st →
      P (pre ++ l) (l.foldl step st) := by
  intro l
  induction l with
  | nil => intro pre st _ _ h; simpa using h
  | cons n l ih =>
    intro pre st hc hq h
    have h1 := hstep pre st n h (closed_deps_lt hc) (hq n (by simp))
    have := ih (pre ++ [n]) (step st n) (by simpa using hc) (fun x hx => hq x (by simp [hx])) h1
    simpa using this

theorem constants_inv (oracle : Nat → Nat × Option Nat) (g : Graph) (hc : Closed g.nodes)
    (hwf : ConstWF g.nodes) :
    CInv g.nodes (g.nodes.foldl (constStep oracle) ⟨[], [], [], []⟩) := by
  have := fold_inv' (constStep oracle) CInv
    (fun n => n.op.isConstant = true → n.ann = [] ∧ n.deps = [])
    (fun pre st n I hd hq => constStep_inv oracle pre st n I hd hq)
    g.nodes [] ⟨[], [], [], []⟩ (by simpa using hc) hwf
    ⟨Track.nil, by intro i h; simp at h, by intro vid k h; simp [assocGet] at h⟩
  simpa using this

/- ---------------- dangling ---------------- -/

theorem getD_true_iff (marks : List Bool) (j : Nat) :
    marks.getD j false = true ↔ marks[j]? = some true := by
  rw [List.getD_eq_getElem?_getD]
  cases h : marks[j]? with
  | none => simp
  | some b => simp

theorem markAll_length (marks : List Bool) (ds : List Nat) : (markAll marks ds).length = marks.length := by
  induction ds generalizing marks with
  | nil => rfl
  | cons d ds ih => simp [markAll, ih]

theorem markAll_mono (marks : List Bool) (ds : List Nat) (j : Nat) (h : marks[j]? = some true) :
    (markAll marks ds)[j]? = some true := by
  induction ds generalizing marks with
  | nil => exact h
  | cons d ds ih =>
    apply ih
    rw [List.getElem?_set]
    split
    · rename_i hdj; subst hdj
      have := lt_of_getElem?_some h
      simp [this]
    · exact h

theorem markAll_marks (marks : List Bool) (ds : List Nat) (d : Nat) (hd : d ∈ ds) (hl : d < marks.length) :
    (markAll marks ds)[d]? = some true := by
  induction ds generalizing marks with
  | nil => cases hd
  | cons d0 ds ih =>
    simp only [markAll]
    rcases List.mem_cons.mp hd with rfl | h
    · apply markAll_mono
      rw [List.getElem?_set]; simp [hl]
    · exact ih _ h (by simpa using hl)

theorem markAll_other (marks : List Bool) (ds : List Nat) (j : Nat) (h : ∀ d ∈ ds, d ≠ j) :
    (markAll marks ds)[j]? = marks[j]? := by
  induction ds generalizing marks with
  | nil => rfl
  | cons d ds ih =>
    simp only [markAll]
    rw [ih _ (fun d' hd' => h d' (by simp [hd']))]
    rw [List.getElem?_set]
    have := h d (by simp)
    simp [this]

theorem closed_prefix {a b : List Node} (h : Closed (a ++ b)) : Closed a := by
  intro k n hk d hd
  exact h k n (getElem?_append_some _ hk) d hd

theorem sweep_length (rev : List Node) (marks : List Bool) : (sweep rev marks).length = marks.length := by
  induction rev generalizing marks with
  | nil => rfl
  | cons n r ih =>
    simp only [sweep]
    rw [ih]
    split <;> simp [markAll_length]

theorem sweep_mono (rev : List Node) (marks : List Bool) (j : Nat) (h : marks[j]? = some true) :
    (sweep rev marks)[j]? = some true := by
  induction rev generalizing marks with
  | nil => exact h
  | cons n r ih =>
    simp only [sweep]
    apply ih
    split
    · exact markAll_mono _ _ _ h
    · exact h

theorem sweep_high (rev : List Node) (marks : List Bool) (hc : Closed rev.reverse) (j : Nat)
    (hj : rev.length ≤ j) : (sweep rev marks)[j]? = marks[j]? := by
  induction rev generalizing marks with
  | nil => rfl
  | cons n r ih =>
    simp only [sweep]
    have hc' : Closed (r.reverse ++ [n]) := by simpa using hc
    rw [ih _ (closed_prefix hc') (by simp at hj; omega)]
    split
    · apply markAll_other
      intro d hd
      have := hc' r.reverse.length n (by simp) d hd
      simp at this hj; omega
    · rfl

theorem sweep_closed (rev : List Node) (marks : List Bool) (hc : Closed rev.reverse)
    (hl : rev.length ≤ marks.length) :
    ∀ (q : Nat) (n : Node), rev.reverse[q]? = some n → (sweep rev marks)[q]? = some true →
      ∀ d ∈ n.deps, (sweep rev marks)[d]? = some true := by
  induction rev generalizing marks with
  | nil => intro q n h; simp at h
  | cons n0 r ih =>
    intro q n hq hm d hd
    have hc' : Closed (r.reverse ++ [n0]) := by simpa using hc
    have hq' : (r.reverse ++ [n0])[q]? = some n := by simpa using hq
    simp only [sweep] at hm ⊢
    rcases getElem?_snoc_cases hq' with hq' | ⟨hq1, hq2⟩
    · refine ih _ (closed_prefix hc') ?_ q n hq' hm d hd
      simp only [List.length_cons] at hl
      split
      · rw [markAll_length]; omega
      · omega
    · subst hq2
      simp only [List.length_reverse] at hq1
      subst hq1
      rw [sweep_high _ _ (closed_prefix hc') _ (Nat.le_refl _)] at hm
      have hdl : d < r.length := by
        have := hc' r.reverse.length n0 (by simp) d hd
        simpa using this
      cases hb : marks.getD r.length false with
      | true =>
        simp only [hb, if_true] at hm ⊢
        apply sweep_mono
        apply markAll_marks _ _ _ hd
        simp at hl; omega
      | false =>
        simp only [hb] at hm
        have := (getD_true_iff marks r.length).mpr (by simpa using hm)
        rw [hb] at this; cases this

theorem useful_closed (g : Graph) (hc : Closed g.nodes) :
    ∀ (i : Nat) (n : Node), g.nodes[i]? = some n → (useful g).getD i false = true →
      ∀ d ∈ n.deps, (useful g).getD d false = true := by
  intro i n hi hm d hd
  rw [getD_true_iff] at hm ⊢
  exact sweep_closed g.nodes.reverse _ (by simpa using hc) (by simp) i n (by simpa using hi) hm d hd

theorem useful_out (g : Graph) (ho : g.out < g.nodes.length) : (useful g).getD g.out false = true := by
  rw [getD_true_iff]
  apply sweep_mono
  rw [List.getElem?_set]; simp [ho]

/-- step: the node is dropped -/
theorem Track.drop {c : Bool} {pre out : List Node} {m : Mapping} (T : Track c pre out m) (n : Node)
    (hni : n.op.isInput = false) : Track c (pre ++ [n]) out (m ++ [none]) := by
  refine ⟨by simp [T.len], ?_, ?_, ?_, ?_, ?_, ?_⟩
  · have := T.ref.extend T.len n [] none (by simpa using T.ref.closedOut) (by intro k h; cases h)
    simpa using this
  · rw [countIn_append, T.nin]; simp [countIn, List.filter, hni]
  · have := T.ins
    unfold inputsOf at *
    rw [List.filter_append, List.map_append, this]; simp [List.filter, hni]
  · intro i k n0 h hn0
    rcases maps_append_cases h with h | ⟨_, hx⟩
    · have hi := (T.ref.bound i k h).1
      rw [List.getElem?_append_left hi] at hn0
      exact T.same i k n0 h hn0
    · cases hx
  · intro i k n0 h hn0 hsp j hj
    rcases maps_append_cases h with h | ⟨_, hx⟩
    · have hi := (T.ref.bound i k h).1
      rw [List.getElem?_append_left hi] at hn0
      rcases maps_append_cases hj with hj | ⟨_, hx⟩
      · exact T.inj i k n0 h hn0 hsp j hj
      · cases hx
    · cases hx
  · intro k hk
    obtain ⟨i, hi⟩ := T.surj k hk; exact ⟨i, maps_append_left hi⟩

/-- Input nodes have no dependencies -/
def InputWF (ns : List Node) : Prop := ∀ n ∈ ns, n.op.isInput = true → n.deps = []

structure KInv (marks : List Bool) (pre : List Node) (st : KSt) : Prop where
  tr : Track false pre st.out st.m
  kept : ∀ i n, pre[i]? = some n → (marks.getD i false = true ∨ n.op.isInput = true) →
    ∃ k, Maps st.m i k
  /-- a node without image is neither marked nor an input -/
  only : ∀ i k, Maps st.m i k → ∃ n, pre[i]? = some n ∧
    (marks.getD i false = true ∨ n.op.isInput = true)

theorem dang_fold (g : Graph) (hc : Closed g.nodes) (hwf : InputWF g.nodes) :
    ∀ (l pre : List Node) (st : KSt), g.nodes = pre ++ l → KInv (useful g) pre st →
      KInv (useful g) (pre ++ l) (l.foldl (dangStep (useful g)) st) := by
  intro l
  induction l with
  | nil => intro pre st _ h; simpa using h
  | cons n l ih =>
    intro pre st hg I
    have hstep : KInv (useful g) (pre ++ [n]) (dangStep (useful g) st n) := by
      have hn : g.nodes[pre.length]? = some n := by rw [hg]; simp
      have hlen := I.tr.len
      unfold dangStep
      split
      · rename_i hdrop
        simp only [Bool.and_eq_true, Bool.not_eq_true', hlen] at hdrop
        refine ⟨I.tr.drop n hdrop.1, ?_, ?_⟩
        · intro i n0 hi hk
          rcases getElem?_snoc_cases hi with hi | ⟨h1, h2⟩
          · obtain ⟨k, hk⟩ := I.kept i n0 hi hk; exact ⟨k, maps_append_left hk⟩
          · subst h1 h2; rcases hk with hk | hk <;> simp_all
        · intro i k h
          rcases maps_append_cases h with h | ⟨_, hx⟩
          · obtain ⟨n0, h1, h2⟩ := I.only i k h
            exact ⟨n0, getElem?_append_some _ h1, h2⟩
          · cases hx
      · rename_i hkeep
        have hkeep' : (useful g).getD pre.length false = true ∨ n.op.isInput = true := by
          simp only [Bool.and_eq_true, Bool.not_eq_true', hlen, not_and, Bool.not_eq_false] at hkeep
          cases h : n.op.isInput
          · left; exact hkeep h
          · right; rfl
        have hmapped : ∀ d ∈ n.deps, ∃ kd, Maps st.m d kd := by
          intro d hd
          rcases hkeep' with hm | hin
          · have hdm := useful_closed g hc pre.length n hn hm d hd
            have hdl : d < pre.length := hc pre.length n hn d hd
            exact I.kept d pre[d] (List.getElem?_eq_getElem hdl) (Or.inl hdm)
          · have := hwf n (by rw [hg]; simp) hin
            rw [this] at hd; cases hd
        refine ⟨I.tr.copy n hmapped, ?_, ?_⟩
        · intro i n0 hi hk
          rcases getElem?_snoc_cases hi with hi | ⟨h1, _⟩
          · obtain ⟨k, hk⟩ := I.kept i n0 hi hk; exact ⟨k, maps_append_left hk⟩
          · subst h1; rw [← hlen]; exact ⟨_, maps_append_new _ _⟩
        · intro i k h
          rcases maps_append_cases h with h | ⟨hi, _⟩
          · obtain ⟨n0, h1, h2⟩ := I.only i k h
            exact ⟨n0, getElem?_append_some _ h1, h2⟩
          · subst hi; rw [hlen]; exact ⟨n, by simp, hkeep'⟩
    have := ih (pre ++ [n]) _ (by simpa using hg) hstep
    simpa using this

theorem dangling_inv (g : Graph) (hc : Closed g.nodes) (hwf : InputWF g.nodes) :
    KInv (useful g) g.nodes (g.nodes.foldl (dangStep (useful g)) ⟨[], []⟩) := by
  have := dang_fold g hc hwf g.nodes [] ⟨[], []⟩ (by simp)
    ⟨Track.nil, by intro i n h; simp at h, by intro i k h; simp [Maps] at h⟩
  simpa using this

/- ---------------- what a tracked pass guarantees ---------------- -/

variable {V : Type}

/-- the randomness oracle of the result agrees with the oracle of the source along the mapping:
    a randomising node of the result is given the draw of its source node -/
def Compat (src : List Node) (m : Mapping) (rO rN : Nat → List V → V) : Prop :=
  ∀ i k n, Maps m i k → src[i]? = some n → n.op.isRandom = true → rN k = rO i

def Special (op : Op) : Prop := op.isRandom = true ∨ op.isPrf = true ∨ op.isInput = true

/-- C04(b) on the IR: a randomising / PRF / input node keeps its operation, is not merged with any
    other node, and every such node of the result comes from exactly one such source node -/
def SpecialPreserved (src out : List Node) (m : Mapping) : Prop :=
  (∀ i k n, Maps m i k → src[i]? = some n → Special n.op →
     (∃ n', out[k]? = some n' ∧ n'.op = n.op) ∧ ∀ j, Maps m j k → j = i) ∧
  (∀ k n', out[k]? = some n' → Special n'.op →
     ∃ i n, Maps m i k ∧ src[i]? = some n ∧ n.op = n'.op ∧ ∀ j, Maps m j k → j = i)

theorem Track.special {c : Bool} {src out : List Node} {m : Mapping} (T : Track c src out m) :
    SpecialPreserved src out m := by
  have key : ∀ i k n, Maps m i k → src[i]? = some n → Special n.op →
      (∃ n', out[k]? = some n' ∧ n'.op = n.op) := by
    intro i k n h hn hsp
    obtain ⟨n', h1, h2⟩ := T.same i k n h hn
    rcases h2 with ⟨h2, _⟩ | ⟨_, _, _, h3⟩
    · exact ⟨n', h1, h2⟩
    · have := foldable_not_special h3
      exfalso; rcases hsp with hsp | hsp | hsp <;> simp_all
  refine ⟨fun i k n h hn hsp => ⟨key i k n h hn hsp, T.inj i k n h hn hsp⟩, ?_⟩
  intro k n' hk hsp
  obtain ⟨i, hi⟩ := T.surj k (lt_of_getElem?_some hk)
  have hil := (T.ref.bound i k hi).1
  have hn : src[i]? = some src[i] := List.getElem?_eq_getElem hil
  obtain ⟨n'', h1, h2⟩ := T.same i k src[i] hi hn
  rw [hk] at h1; cases h1
  rcases h2 with ⟨h2, _⟩ | ⟨_, h2, _, _⟩
  · exact ⟨i, src[i], hi, hn, h2.symm, T.inj i k src[i] hi hn (by rw [← h2]; exact hsp)⟩
  · exfalso
    rcases hsp with hsp | hsp | hsp <;> cases hop : n'.op <;>
      simp_all [Op.isRandom, Op.isPrf, Op.isInput, Op.isConstant]

/-- annotations: the image of a mapped node carries all its annotations -/
theorem Track.annotations {c : Bool} {src out : List Node} {m : Mapping} (T : Track c src out m) :
    ∀ i k n, Maps m i k → src[i]? = some n → ∃ n', out[k]? = some n' ∧ ∀ a ∈ n.ann, a ∈ n'.ann := by
  intro i k n h hn
  obtain ⟨n', h1, h2⟩ := T.same i k n h hn
  refine ⟨n', h1, ?_⟩
  rcases h2 with ⟨_, h2⟩ | ⟨_, _, h2, _⟩
  · rw [h2]; exact fun a h => h
  · rw [h2]; intro a h; cases h

/-- value preservation for a tracked pass; `hconst`: Constant nodes of the result that replace a
    node with a different operation carry that node's value (the evaluator oracle is right) -/
theorem Track.value {c : Bool} {src out : List Node} {m : Mapping} (T : Track c src out m)
    (hsrc : Closed src) (sem : Op → List V → V) (inp : Nat → V) (dv : V) (rO rN : Nat → List V → V)
    (hr : Compat src m rO rN)
    (hconst : ∀ i k n n', Maps m i k → src[i]? = some n → out[k]? = some n' → n'.op.isConstant →
      n'.op ≠ n.op → sem n'.op [] = (eval sem inp dv rO src).getD i dv) :
    ∀ i k, Maps m i k →
      (eval sem inp dv rN out).getD k dv = (eval sem inp dv rO src).getD i dv :=
  T.ref.sound sem inp dv hsrc rO rN hr hconst

/-- `Track false`: no node is replaced by a constant -/
theorem Track.noConst {src out : List Node} {m : Mapping} (T : Track false src out m) :
    ∀ i k n n', Maps m i k → src[i]? = some n → out[k]? = some n' → n'.op = n.op := by
  intro i k n n' h hn hk
  obtain ⟨n'', h1, h2⟩ := T.same i k n h hn
  rw [hk] at h1; cases h1
  rcases h2 with ⟨h2, _⟩ | ⟨h2, _⟩
  · exact h2
  · cases h2

/-- a node the output depends on -/
inductive Reach (g : Graph) : Nat → Prop where
  | out : Reach g g.out
  | dep (i d : Nat) (n : Node) : Reach g i → g.nodes[i]? = some n → d ∈ n.deps → Reach g d

theorem reach_useful (g : Graph) (hc : Closed g.nodes) (ho : g.out < g.nodes.length) :
    ∀ i, Reach g i → (useful g).getD i false = true := by
  intro i h
  induction h with
  | out => exact useful_out g ho
  | dep i d n _ hn hd ih => exact useful_closed g hc i n hn ih d hd

/-- first source node mapped to `k` (0 if there is none) -/
def originAux (k : Nat) : Mapping → Nat → Nat
  | [], _ => 0
  | x :: r, p => if x = some k then p else originAux k r (p + 1)

def origin (m : Mapping) (k : Nat) : Nat := originAux k m 0

/-- the oracle of the source transported along the mapping -/
def transport (m : Mapping) (rO : Nat → List V → V) : Nat → List V → V := fun k => rO (origin m k)

theorem originAux_spec (k : Nat) (m : Mapping) (p i : Nat) (h : Maps m i k) :
    ∃ j, originAux k m p = p + j ∧ Maps m j k := by
  induction m generalizing p i with
  | nil => simp [Maps] at h
  | cons x r ih =>
    simp only [originAux]
    split
    · rename_i hx; exact ⟨0, rfl, by simp [Maps, hx]⟩
    · rename_i hx
      cases i with
      | zero => simp [Maps] at h; exact absurd h hx
      | succ i =>
        obtain ⟨j, h1, h2⟩ := ih (p + 1) i (by simpa [Maps] using h)
        exact ⟨j + 1, by omega, by simpa [Maps] using h2⟩

/-- because randomising nodes are never merged, the transported oracle is compatible -/
theorem compat_transport {src out : List Node} {m : Mapping} (S : SpecialPreserved src out m)
    (rO : Nat → List V → V) : Compat src m rO (transport m rO) := by
  intro i k n h hn hr
  obtain ⟨j, h1, h2⟩ := originAux_spec k m 0 i h
  have := (S.1 i k n h hn (Or.inl hr)).2 j h2
  unfold transport origin
  rw [h1, this]; simp

/-- executable closedness check (for concrete instances) -/
def closedFrom : Nat → List Node → Bool
  | _, [] => true
  | k, n :: r => n.deps.all (· < k) && closedFrom (k + 1) r

theorem closedFrom_spec (ns : List Node) (k : Nat) (h : closedFrom k ns = true) :
    ∀ (j : Nat) (n : Node), ns[j]? = some n → ∀ d ∈ n.deps, d < k + j := by
  induction ns generalizing k with
  | nil => intro j n hj; simp at hj
  | cons x r ih =>
    simp only [closedFrom, Bool.and_eq_true, List.all_eq_true, decide_eq_true_eq] at h
    intro j n hj d hd
    cases j with
    | zero => simp at hj; subst hj; exact h.1 d hd
    | succ j =>
      have := ih (k + 1) h.2 j n (by simpa using hj) d hd
      omega

theorem closed_of_closedFrom (ns : List Node) (h : closedFrom 0 ns = true) : Closed ns := by
  intro k n hk d hd
  have := closedFrom_spec ns 0 h k n hk d hd
  omega

/-- the laws of the structural operations the meta pass relies on.  `tyv v` is the type summary of
    a value (what the harness records in `Node.ty`: `arr nd st` for scalars / arrays, `vec e` for
    vectors, `other` for everything else).  The pass reads recorded types to choose between `Get`
    and `GetSlice`, to cancel B2A∘A2B, and the nodes it creates get re-inferred types — hence the
    four typing laws.  (Earlier versions of this file used two observations `one` / `stOf`; they
    cannot express the type of a created `GetSlice` node, which the pass reads again when vectors
    of arrays are nested.)

    `ok v` = "the evaluation that produced `v` succeeded".  Every equation is only demanded when
    its left-hand side — the value of the node the pass replaces — is `ok`: for a strict partial
    semantics (ciphercore's evaluator: type errors, index out of range) the unconditional equations
    are false (e.g. `A2B(B2A_st x) = x` for an `x` that is not a bit array), see
    `Lemmas/OptimizerEval.lean`.  With `ok := fun _ => True` these are the unconditional laws.
    `ok_createTuple`: strictness of CreateTuple (needed for the components of a resolved Zip).
    `b2a_a2b` also demands that `x` itself (the value of a node of the result graph) is `ok`: for
    the evaluator model `ok` includes "has a valid type", and the law is false for a value of the
    invalid type `array [] st` whose summary `arr 0 st` is that of a scalar. -/
structure MetaLaws (ok : V → Prop) (sem : Op → List V → V) (tyv : V → Ty) : Prop where
  tupleGet : ∀ (vs : List V) (j : Nat) (h : j < vs.length),
    ok (sem (.tupleGet j) [sem .createTuple vs]) →
    sem (.tupleGet j) [sem .createTuple vs] = vs[j]
  namedGet : ∀ (names : List Nat) (vs : List V) (j : Nat) (h : j < vs.length), names.length = vs.length →
    names.Nodup → ok (sem (.namedTupleGet names[j]!) [sem (.createNamedTuple names) vs]) →
    sem (.namedTupleGet names[j]!) [sem (.createNamedTuple names) vs] = vs[j]
  vectorGet : ∀ (t : Nat) (vs : List V) (vid c : Nat) (h : c < vs.length),
    ok (sem .vectorGet [sem (.createVector t) vs, sem (.constant vid (some c)) []]) →
    sem .vectorGet [sem (.createVector t) vs, sem (.constant vid (some c)) []] = vs[c]
  zipGet : ∀ (vs : List V) (i : V), ok (sem .vectorGet [sem .zip vs, i]) →
    sem .vectorGet [sem .zip vs, i] = sem .createTuple (vs.map fun v => sem .vectorGet [v, i])
  a2vGet : ∀ (a : V) (vid c : Nat),
    ok (sem .vectorGet [sem .arrayToVector [a], sem (.constant vid (some c)) []]) →
    sem .vectorGet [sem .arrayToVector [a], sem (.constant vid (some c)) []] =
      match tyv a with
      | .arr 1 _ => sem (.get c) [a]
      | _ => sem (.getSlice c) [a]
  a2b_b2a : ∀ (x : V) (st : Nat), ok (sem .a2b [sem (.b2a st) [x]]) →
    sem .a2b [sem (.b2a st) [x]] = x
  b2a_a2b : ∀ (x : V) (nd st : Nat), tyv x = .arr nd st → ok x → ok (sem (.b2a st) [sem .a2b [x]]) →
    sem (.b2a st) [sem .a2b [x]] = x
  ty_get : ∀ (a : V) (c st : Nat), tyv a = .arr 1 st → ok (sem (.get c) [a]) →
    tyv (sem (.get c) [a]) = .arr 0 st
  ty_getSlice : ∀ (a : V) (c : Nat), ok (sem (.getSlice c) [a]) → tyv (sem (.getSlice c) [a]) =
      match tyv a with
      | .arr nd st => .arr (nd - 1) st
      | _ => .other
  ty_vectorGet : ∀ (v i : V) (e : Ty), tyv v = .vec e → ok (sem .vectorGet [v, i]) →
    tyv (sem .vectorGet [v, i]) = e
  ty_createTuple : ∀ (vs : List V), tyv (sem .createTuple vs) = .other
  ok_createTuple : ∀ (vs : List V), ok (sem .createTuple vs) → ∀ v ∈ vs, ok v

/-- every node of the graph evaluates successfully -/
def ValOK (ok : V → Prop) (sem : Op → List V → V) (inp : Nat → V) (dv : V) (rnd : Nat → List V → V)
    (ns : List Node) : Prop :=
  ∀ i, i < ns.length → ok ((eval sem inp dv rnd ns).getD i dv)

/-- the recorded type summaries describe the values (the meta pass reads them for A2B/B2A and Get) -/
def TyOK (sem : Op → List V → V) (inp : Nat → V) (dv : V) (rnd : Nat → List V → V)
    (tyv : V → Ty) (ns : List Node) : Prop :=
  ∀ (i : Nat) (n : Node), ns[i]? = some n → tyv ((eval sem inp dv rnd ns).getD i dv) = n.ty

/-- arities the type checker of ciphercore guarantees and the meta pass silently relies on
    (`k` = number of dependencies); field names of a named tuple are distinct -/
def arityOK (op : Op) (k : Nat) : Bool :=
  match op with
  | .constant _ _ => k == 0
  | .arrayToVector => k == 1
  | .a2b => k == 1
  | .b2a _ => k == 1
  | .createNamedTuple names => decide names.Nodup && names.length == k
  | _ => true

def metaWF (n : Node) : Bool := arityOK n.op n.deps.length

def MetaWF (ns : List Node) : Prop := ∀ n ∈ ns, metaWF n = true

/-- `VectorGet` is applied to vectors and `Zip` to vectors only (guaranteed by the type checker of
    ciphercore): stated on the values, like `TyOK` -/
def VecOK (sem : Op → List V → V) (inp : Nat → V) (dv : V) (rnd : Nat → List V → V)
    (tyv : V → Ty) (ns : List Node) : Prop :=
  ∀ (i : Nat) (n : Node), ns[i]? = some n →
    (n.op = .vectorGet → ∀ d, n.deps.head? = some d →
      ∃ e, tyv ((eval sem inp dv rnd ns).getD d dv) = .vec e) ∧
    (n.op = .zip → ∀ d ∈ n.deps, ∃ e, tyv ((eval sem inp dv rnd ns).getD d dv) = .vec e)

/-- the same on the recorded types -/
def VecWF (ns : List Node) : Prop :=
  ∀ (i : Nat) (n : Node), ns[i]? = some n →
    (n.op = .vectorGet → ∀ d, n.deps.head? = some d → ∃ e, tyOf ns d = .vec e) ∧
    (n.op = .zip → ∀ d ∈ n.deps, ∃ e, tyOf ns d = .vec e)

theorem VecWF.ok {sem : Op → List V → V} {inp : Nat → V} {dv : V} {rnd : Nat → List V → V}
    {tyv : V → Ty} {ns : List Node} (hc : Closed ns) (h : VecWF ns)
    (hty : TyOK sem inp dv rnd tyv ns) : VecOK sem inp dv rnd tyv ns := by
  have key : ∀ (i : Nat) (n : Node) (d : Nat), ns[i]? = some n → d ∈ n.deps → ∀ e, tyOf ns d = .vec e →
      tyv ((eval sem inp dv rnd ns).getD d dv) = .vec e := by
    intro i n d hn hd e he
    have hdi : d < i := hc i n hn d hd
    have hdl : d < ns.length := Nat.lt_trans hdi (lt_of_getElem?_some hn)
    rw [hty d ns[d] (List.getElem?_eq_getElem hdl), ← he]
    unfold tyOf
    rw [List.getD_eq_getElem?_getD, List.getElem?_eq_getElem hdl]; rfl
  intro i n hn
  refine ⟨fun hop d hd => ?_, fun hop d hd => ?_⟩
  · obtain ⟨e, he⟩ := (h i n hn).1 hop d hd
    exact ⟨e, key i n d hn (List.mem_of_mem_head? hd) e he⟩
  · obtain ⟨e, he⟩ := (h i n hn).2 hop d hd
    exact ⟨e, key i n d hn hd e he⟩

theorem maps_join {m1 m2 : Mapping} {i k : Nat} :
    Maps (join m1 m2) i k ↔ ∃ a, Maps m1 i a ∧ Maps m2 a k := by
  unfold Maps join
  rw [List.getElem?_map]
  cases h : m1[i]? with
  | none => simp
  | some x =>
    cases x with
    | none => simp
    | some a =>
      simp only [Option.map_some, Option.some.injEq, List.getD_eq_getElem?_getD]
      constructor
      · intro h'
        refine ⟨a, rfl, ?_⟩
        cases h2 : m2[a]? with
        | none => rw [h2] at h'; simp at h'
        | some y => rw [h2] at h'; simpa using h'
      · rintro ⟨a', ha, h'⟩
        cases ha
        rw [h']; rfl

end CCV.Optimizer
