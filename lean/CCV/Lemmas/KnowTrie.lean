import CCV.Model.Know
/- The trie-based holder analysis computes the same holder trees as the list-based one. -/
namespace CCV.Know

namespace Trie
variable {α : Type}

theorem get_leaf (d k : Nat) : get d (.leaf : Trie α) k = none := by
  cases d <;> rfl

theorem get_set : ∀ (d : Nat) (t : Trie α) (k k' : Nat) (a : α), k < 2 ^ d → k' < 2 ^ d →
    get d (set d t k a) k' = if k = k' then some a else get d t k'
  | 0, t, k, k', a, hk, hk' => by
    have e : k = k' := by omega
    cases t <;> simp [set, get, e]
  | d + 1, t, k, k', a, hk, hk' => by
    have hk2 : k / 2 < 2 ^ d := by rw [Nat.pow_succ] at hk; omega
    have hk2' : k' / 2 < 2 ^ d := by rw [Nat.pow_succ] at hk'; omega
    cases t with
    | leaf =>
      by_cases p : k % 2 = 0 <;> by_cases p' : k' % 2 = 0
      · simp only [set, p, if_true, get, p', get_set d .leaf (k / 2) (k' / 2) a hk2 hk2', get_leaf]
        by_cases e : k = k'
        · subst e; simp
        · have : k / 2 ≠ k' / 2 := by omega
          simp [e, this]
      · have e : k ≠ k' := by intro h; rw [h] at p; exact p' p
        simp [set, p, get, p', get_leaf, e]
      · have e : k ≠ k' := by intro h; rw [h] at p; exact p p'
        simp [set, p, get, p', get_leaf, e]
      · simp only [set, p, if_false, get, p', get_set d .leaf (k / 2) (k' / 2) a hk2 hk2', get_leaf]
        by_cases e : k = k'
        · subst e; simp
        · have : k / 2 ≠ k' / 2 := by omega
          simp [e, this]
    | node v l r =>
      by_cases p : k % 2 = 0 <;> by_cases p' : k' % 2 = 0
      · simp only [set, p, if_true, get, p', get_set d l (k / 2) (k' / 2) a hk2 hk2']
        by_cases e : k = k'
        · subst e; simp
        · have : k / 2 ≠ k' / 2 := by omega
          simp [e, this]
      · have e : k ≠ k' := by intro h; rw [h] at p; exact p' p
        simp [set, p, get, p', e]
      · have e : k ≠ k' := by intro h; rw [h] at p; exact p p'
        simp [set, p, get, p', e]
      · simp only [set, p, if_false, get, p', get_set d r (k / 2) (k' / 2) a hk2 hk2']
        by_cases e : k = k'
        · subst e; simp
        · have : k / 2 ≠ k' / 2 := by omega
          simp [e, this]

end Trie

theorem hBaseF_congr (inStat : Nat → HT) (owner : Nat → Nat) (l1 l2 : Nat → HT) (n : Node)
    (h : ∀ d ∈ n.deps, l1 d = l2 d) : hBaseF inStat owner l1 n = hBaseF inStat owner l2 n := by
  unfold hBaseF
  have : n.deps.map l1 = n.deps.map l2 := List.map_congr_left h
  simp only [this]

theorem wellScoped_cons' (n : Node) (g : List Node) (k : Nat) (h : wellScoped (n :: g) k = true) :
    (∀ d ∈ n.deps, d < k) ∧ wellScoped g (k + 1) = true := by
  simp only [wellScoped, Bool.and_eq_true, List.all_eq_true, decide_eq_true_eq] at h
  exact h

/-- simulation: the trie holds exactly the list of holder trees computed so far -/
theorem hRunT_sim (inStat : Nat → HT) (owner : Nat → Nat) :
    ∀ (g : List Node) (i : Nat) (env : Trie HT) (henv : List HT),
    henv.length = i → i + g.length ≤ 2 ^ trieDepth → wellScoped g i = true →
    (∀ j, j < i → Trie.get trieDepth env j = some (henv.getD j (.leaf PS.none))) →
    ∀ j, j < i + g.length →
      Trie.get trieDepth (hRunT inStat owner g i env) j
        = some ((hRun inStat owner g henv).getD j (.leaf PS.none))
  | [], i, env, henv, _, _, _, hinv, j, hj => by
    simp only [hRunT, hRun]; exact hinv j (by simpa using hj)
  | n :: g, i, env, henv, hlen, hsz, hw, hinv, j, hj => by
    obtain ⟨hsc, hw'⟩ := wellScoped_cons' n g i hw
    simp only [hRunT, hRun]
    have hnode : hNodeT inStat owner env n = hNode inStat owner henv n := by
      unfold hNodeT hNode hBase
      congr 1
      apply hBaseF_congr
      intro d hd
      rw [hinv d (hsc d hd)]; rfl
    have hi : i < 2 ^ trieDepth := by simp only [List.length_cons] at hsz; omega
    apply hRunT_sim inStat owner g (i + 1) _ (henv ++ [hNode inStat owner henv n])
    · simp [hlen]
    · simp only [List.length_cons] at hsz; omega
    · exact hw'
    · intro j' hj'
      have hj2 : j' < 2 ^ trieDepth := by omega
      rw [Trie.get_set trieDepth env i j' _ hi hj2, hnode]
      by_cases e : i = j'
      · subst e
        simp [List.getD_eq_getElem?_getD, ← hlen]
      · have hlt : j' < i := by omega
        simp only [e, if_false]
        rw [hinv j' hlt]
        congr 1
        have : j' < henv.length := by omega
        simp [List.getD_eq_getElem?_getD, List.getElem?_append_left this]
    · simp only [List.length_cons] at hj; omega

theorem hRunT_get (inStat : Nat → HT) (owner : Nat → Nat) (g : List Node) (out : Nat)
    (hw : wellScoped g 0 = true) (hsz : g.length ≤ 2 ^ trieDepth) (hout : out < g.length) :
    (Trie.get trieDepth (hRunT inStat owner g 0 .leaf) out).getD (.leaf PS.none)
      = (hRun inStat owner g []).getD out (.leaf PS.none) := by
  have := hRunT_sim inStat owner g 0 .leaf [] rfl (by simpa using hsz) hw
    (fun j hj => absurd hj (by omega)) out (by simpa using hout)
  rw [this]; rfl

/-- the trie-based check implies the list-based check (whose soundness is `revealed_correct`) -/
theorem okRevealedT_sound (inStat : Nat → HT) (owner : Nat → Nat) (g : List Node) (out : Nat) (outs : PS)
    (h : okRevealedT inStat owner g out outs = true) :
    okRevealed inStat owner g out outs = true ∧ out < g.length := by
  simp only [okRevealedT, Bool.and_eq_true, decide_eq_true_eq] at h
  obtain ⟨⟨⟨hw, hsz⟩, hout⟩, hs⟩ := h
  rw [hRunT_get inStat owner g out hw hsz hout] at hs
  refine ⟨?_, hout⟩
  simp only [okRevealed, Bool.and_eq_true]
  exact ⟨hw, hs⟩

theorem okSharedT_sound (inStat : Nat → HT) (owner : Nat → Nat) (g : List Node) (out : Nat)
    (h : okSharedT inStat owner g out = true) :
    okShared inStat owner g out = true ∧ out < g.length := by
  simp only [okSharedT, Bool.and_eq_true, decide_eq_true_eq] at h
  obtain ⟨⟨⟨⟨⟨⟨⟨⟨hw, hsz⟩, hout⟩, h00⟩, h01⟩, h11⟩, h12⟩, h22⟩, h20⟩ := h
  rw [hRunT_get inStat owner g out hw hsz hout] at h00 h01 h11 h12 h22 h20
  refine ⟨?_, hout⟩
  simp only [okShared, Bool.and_eq_true]
  exact ⟨⟨⟨⟨⟨⟨hw, h00⟩, h01⟩, h11⟩, h12⟩, h22⟩, h20⟩

end CCV.Know
