import CCV.Model.Ops
import CCV.Model.Spec
import CCV.Lemmas.Shape
import CCV.Lemmas.Kernels
import CCV.Lemmas.OpsPerm
import CCV.Lemmas.OpsMat
/-
  Reductions: Sum over a subset of the axes (scatter-add loop) and CumSum (in-place sequential
  loop): the evaluator-shaped model `CCV.Ops` computes the NumPy-style index semantics `CCV.Spec`.
-/
namespace CCV.Ops
open CCV CCV.Shape

/-! ### all multi-indices -/

/-- `0 .. d*P-1` split into `d` blocks of `P` -/
theorem range_mul_flatMap (d P : Nat) :
    List.range (d * P) = (List.range d).flatMap fun x => (List.range P).map fun i => x * P + i := by
  induction d with
  | zero => simp
  | succ d ih =>
    rw [Nat.succ_mul, List.range_add, ih, List.range_succ, List.flatMap_append]
    simp

/-- all multi-indices of a shape, row-major, are the images of 0..prod-1 under number_to_index -/
theorem allIdx_eq_map (shape : List Nat) (hpos : pos shape) :
    Spec.allIdx shape = (List.range (prod shape)).map fun i => numberToIndex i shape := by
  induction shape with
  | nil => rfl
  | cons d ds ih =>
    have ⟨hd, hds⟩ := pos_cons hpos
    have hP := prod_pos hds
    simp only [Spec.allIdx, prod]
    rw [ih hds, range_mul_flatMap, List.map_flatMap]
    congr 1
    funext x
    rw [List.map_map, List.map_map]
    apply List.map_congr_left
    intro i hi
    have hi := List.mem_range.mp hi
    simp only [Function.comp]
    rw [numberToIndex_cons hd]
    have h1 : (x * prod ds + i) / prod ds = x := by
      rw [Nat.mul_comm, Nat.mul_add_div hP, Nat.div_eq_of_lt hi, Nat.add_zero]
    have h2 : (x * prod ds + i) % prod ds = i := by
      rw [Nat.mul_comm, Nat.mul_add_mod, Nat.mod_eq_of_lt hi]
    rw [h1, h2]

example : Spec.allIdx [2, 3] = [[0, 0], [0, 1], [0, 2], [1, 0], [1, 1], [1, 2]] := by decide

/-! ### Sum over some of the axes -/

theorem getD_map_low (st : ST) (l : List Nat) (p : Nat) (hp : p < l.length) :
    (l.map (low st)).getD p 0 = low st (l.getD p 0) := by
  simp [List.getD_eq_getElem?_getD, hp]

/-- a fold of modular adds over a list of positions is the integer sum mod 2^w -/
theorem sumFold_idx (st : ST) (xs : List Nat) (L : List Nat) :
    low st (L.foldl (fun acc i => addU128 acc ((xs.map (ext st)).getD i 0) (modulus st)) 0)
      = st.ofInt ((L.map fun i => st.toInt (xs.getD i 0)).sum) := by
  have h : L.foldl (fun acc i => addU128 acc ((xs.map (ext st)).getD i 0) (modulus st)) 0
      = ((L.map fun i => xs.getD i 0).map (ext st)).foldl (fun res v => addU128 res v (modulus st)) 0 := by
    rw [List.map_map, List.foldl_map]
    simp only [getD_map_ext, Function.comp]
  rw [h, sumFold_spec, List.map_map]
  rfl

/-- Sum over a non-empty proper subset of the axes (array result):
    `R[J] = Σ { A[I] | I restricted to the kept axes = J }` mod 2^w -/
theorem sumAxes_spec (st : ST) (shape xs axes : List Nat) (hpos : pos shape) (hlen : xs.length = prod shape)
    (hax : axes ≠ []) (J : List Nat)
    (hJ : validIdx J (((List.range shape.length).filter fun j => !axes.contains j).map fun j => shape.getD j 0)) :
    (sum st shape xs axes (some (((List.range shape.length).filter fun j => !axes.contains j).map fun j => shape.getD j 0))).getD
        (flat J (((List.range shape.length).filter fun j => !axes.contains j).map fun j => shape.getD j 0)) 0
      = Spec.sumAxes st (Spec.ofFlat shape xs) shape ((List.range shape.length).filter fun j => !axes.contains j) J := by
  generalize hk : ((List.range shape.length).filter fun j => !axes.contains j) = kept at hJ ⊢
  have hkept : ∀ j ∈ kept, j < shape.length := by
    intro j hj
    rw [← hk] at hj
    exact List.mem_range.mp (List.mem_filter.mp hj).1
  generalize hrs : (kept.map fun j => shape.getD j 0) = resShape at hJ ⊢
  have hemp : axes.isEmpty = false := by
    cases axes with
    | nil => exact absurd rfl hax
    | cons a l => rfl
  have hp : flat J resShape < (List.replicate (prod resShape) 0).length := by
    rw [List.length_replicate]; exact flat_lt hJ
  simp only [sum, hemp, Bool.false_eq_true, if_false, hk]
  rw [getD_map_low _ _ _ (by rw [foldl_setg_length]; exact hp)]
  rw [foldl_scatter_add (xs.map (ext st)).length
    (fun i => indexToNumber (kept.map fun ax => (numberToIndex i shape).getD ax 0) resShape)
    (fun i => (xs.map (ext st)).getD i 0) (fun a b => addU128 a b (modulus st)) _ _ hp]
  have h0 : (List.replicate (prod resShape) 0).getD (flat J resShape) 0 = 0 := by
    rw [List.getD_eq_getElem?_getD, List.getElem?_replicate]
    split <;> rfl
  rw [h0, sumFold_idx]
  simp only [Spec.sumAxes, Spec.ofFlat]
  rw [allIdx_eq_map shape hpos, List.filter_map, List.map_map, List.length_map, hlen]
  congr 2
  have hf : (List.range (prod shape)).filter
        (fun i => decide (indexToNumber (kept.map fun ax => (numberToIndex i shape).getD ax 0) resShape
          = flat J resShape))
      = (List.range (prod shape)).filter
        ((fun I => decide ((kept.map fun ax => I.getD ax 0) = J)) ∘ fun i => numberToIndex i shape) := by
    apply List.filter_congr
    intro i hi
    have hv := numberToIndex_valid hpos (List.mem_range.mp hi)
    have hv' := validIdx_map_getD hv kept hkept
    rw [hrs] at hv'
    rw [indexToNumber_eq_flat hv']
    simp only [Function.comp]
    exact decide_eq_decide.mpr ⟨fun h => flat_inj hv' hJ h, fun h => by rw [h]⟩
  rw [hf]
  apply List.map_congr_left
  intro i hi
  have hi' := List.mem_range.mp (List.mem_filter.mp hi).1
  simp only [Function.comp, flat_numberToIndex hpos hi']

example : sum .u8 [2, 3] [1, 2, 3, 4, 5, 250] [0] (some [3]) = [5, 7, 253] := by decide
example : sum .i8 [2, 3] [1, 2, 3, 4, 5, 250] [1] (some [2]) = [6, 3] := by decide

/-! ### CumSum -/

/-- body of the in-place loop: `out[i] = add out[i] out[pr i]` when `c i` -/
def inplaceStep (c : Nat → Bool) (pr : Nat → Nat) (add : Nat → Nat → Nat) (out : List Nat) (i : Nat) :
    List Nat :=
  if c i then out.set i (add (out.getD i 0) (out.getD (pr i) 0)) else out

theorem inplaceStep_length (c : Nat → Bool) (pr : Nat → Nat) (add : Nat → Nat → Nat) (out : List Nat)
    (i : Nat) : (inplaceStep c pr add out i).length = out.length := by
  unfold inplaceStep; split
  · simp
  · rfl

theorem foldl_inplace_length (c : Nat → Bool) (pr : Nat → Nat) (add : Nat → Nat → Nat) (l : List Nat)
    (init : List Nat) : (l.foldl (inplaceStep c pr add) init).length = init.length := by
  induction l generalizing init with
  | nil => rfl
  | cons a l ih => simp only [List.foldl_cons]; rw [ih, inplaceStep_length]

/-- invariant of a sequential in-place loop whose step `i` reads an already final cell `pr i < i`
    and the still untouched cell `i`: after `t` steps the cells below `t` satisfy `Q`, the others
    still hold the input -/
theorem foldl_inplace_inv (c : Nat → Bool) (pr : Nat → Nat) (add : Nat → Nat → Nat) (inp : List Nat)
    (Q : Nat → Nat → Prop)
    (hpr : ∀ i, i < inp.length → c i = true → pr i < i)
    (hbase : ∀ i, i < inp.length → c i = false → Q i (inp.getD i 0))
    (hstep : ∀ i, i < inp.length → c i = true → ∀ v, Q (pr i) v → Q i (add (inp.getD i 0) v))
    (t : Nat) (ht : t ≤ inp.length) :
    ∀ i, (i < t → Q i (((List.range t).foldl (inplaceStep c pr add) inp).getD i 0)) ∧
      (t ≤ i → ((List.range t).foldl (inplaceStep c pr add) inp).getD i 0 = inp.getD i 0) := by
  induction t with
  | zero => intro i; exact ⟨fun h => absurd h (Nat.not_lt_zero _), fun _ => rfl⟩
  | succ t ih =>
    have ih := ih (by omega)
    have hl := foldl_inplace_length c pr add (List.range t) inp
    rw [List.range_succ, List.foldl_append]
    simp only [List.foldl_cons, List.foldl_nil]
    intro i
    cases hc : c t with
    | false =>
      simp only [inplaceStep, hc, Bool.false_eq_true, if_false]
      refine ⟨fun hi => ?_, fun hi => (ih i).2 (by omega)⟩
      by_cases e : i = t
      · subst e
        rw [(ih i).2 (Nat.le_refl _)]
        exact hbase i (by omega) hc
      · exact (ih i).1 (by omega)
    | true =>
      simp only [inplaceStep, hc, if_true]
      refine ⟨fun hi => ?_, fun hi => ?_⟩
      · by_cases e : i = t
        · subst e
          rw [getD_set_self _ _ _ (by rw [hl]; omega), (ih i).2 (Nat.le_refl _)]
          exact hstep i (by omega) hc _ ((ih (pr i)).1 (hpr i (by omega) hc))
        · rw [getD_set_ne _ _ _ _ (fun h => e h.symm)]
          exact (ih i).1 (by omega)
      · rw [getD_set_ne _ _ _ _ (by omega)]
        exact (ih i).2 (by omega)

/-! #### index facts -/

theorem getD_set_idx (I : List Nat) (a k v : Nat) (ha : a < I.length) :
    (I.set a v).getD k 0 = if k = a then v else I.getD k 0 := by
  by_cases e : k = a
  · subst e; rw [if_pos rfl]; exact getD_set_self _ _ _ ha
  · rw [if_neg e]; exact getD_set_ne _ _ _ _ (fun h => e h.symm)

theorem validIdx_set {I shape : List Nat} (h : validIdx I shape) (a v : Nat) (ha : a < shape.length)
    (hv : v < shape.getD a 0) : validIdx (I.set a v) shape := by
  have ⟨hl, hd⟩ := (validIdx_iff_getD I shape).mp h
  rw [validIdx_iff_getD]
  refine ⟨by simpa using hl, fun k hk => ?_⟩
  rw [getD_set_idx _ _ _ _ (by omega)]
  split
  · rename_i e; rw [e]; exact hv
  · exact hd k hk

theorem set_getD_self (I : List Nat) (a : Nat) (ha : a < I.length) : I.set a (I.getD a 0) = I := by
  apply List.ext_getElem (by simp)
  intro k h1 h2
  by_cases e : a = k
  · subst e; simp [List.getD_eq_getElem?_getD, ha]
  · simp [e]

/-- lowering one digit lowers the row-major position -/
theorem flat_set_lt {I shape : List Nat} (h : validIdx I shape) (a v : Nat) (ha : a < shape.length)
    (hv : v < I.getD a 0) : flat (I.set a v) shape < flat I shape := by
  induction shape generalizing I a with
  | nil => simp at ha
  | cons d ds ih =>
    cases I with
    | nil => simp [validIdx] at h
    | cons x xs =>
      simp only [validIdx] at h
      cases a with
      | zero =>
        simp only [List.set_cons_zero, flat]
        have hx : v < x := by simpa using hv
        have hP := prod_pos (validIdx_pos h.2)
        have := Nat.mul_lt_mul_of_lt_of_le hx (Nat.le_refl (prod ds)) hP
        omega
      | succ a =>
        simp only [List.set_cons_succ, flat]
        have := ih h.2 a (by simpa using ha) (by simpa using hv)
        omega

theorem sumTo_succ (K : Nat) (f : Nat → Int) : Spec.sumTo (K + 1) f = Spec.sumTo K f + f K := by
  simp [Spec.sumTo, List.range_succ]

theorem emod_of_low_eq (st : ST) (v : Nat) (s : Int) (h : low st v = st.ofInt s) :
    (v : Int) % ((2 ^ st.bits : Nat) : Int) = s % ((2 ^ st.bits : Nat) : Int) := by
  have hW : (0 : Int) < ((2 ^ st.bits : Nat) : Int) := Int.natCast_pos.mpr (pow_bits_pos st)
  have h1 : ((low st v : Nat) : Int) = (v : Int) % ((2 ^ st.bits : Nat) : Int) := by
    simp only [low, Int.natCast_emod]
  have h2 : ((st.ofInt s : Nat) : Int) = s % ((2 ^ st.bits : Nat) : Int) := by
    unfold ST.ofInt
    exact Int.toNat_of_nonneg (Int.emod_nonneg _ (Int.ne_of_gt hW))
  rw [← h1, h, h2]

/-- the loop of `cumSum` is an instance of the generic in-place loop -/
theorem cumSum_eq (st : ST) (shape xs : List Nat) (axis : Nat) :
    cumSum st shape xs axis
      = ((List.range (xs.map (ext st)).length).foldl
          (inplaceStep (fun i => decide (0 < (numberToIndex i shape).getD axis 0))
            (fun i => indexToNumber ((numberToIndex i shape).set axis ((numberToIndex i shape).getD axis 0 - 1)) shape)
            (fun a b => addU128 a b (modulus st))) (xs.map (ext st))).map (low st) := by
  unfold cumSum inplaceStep
  simp only [decide_eq_true_eq]

/-- CumSum along `axis` (numpy.cumsum): `R[I] = Σ_{k ≤ I[axis]} A[I with axis := k]` mod 2^w -/
theorem cumSum_spec (st : ST) (shape xs : List Nat) (axis : Nat) (hpos : pos shape) (hlen : xs.length = prod shape)
    (hax : axis < shape.length) (I : List Nat) (hI : validIdx I shape) :
    (cumSum st shape xs axis).getD (flat I shape) 0 = Spec.cumSum st (Spec.ofFlat shape xs) axis I := by
  have hn : (xs.map (ext st)).length = prod shape := by rw [List.length_map, hlen]
  -- the integer prefix sum that cell `i` must hold
  let S : Nat → Int := fun i => Spec.sumTo ((numberToIndex i shape).getD axis 0 + 1) fun k =>
    st.toInt (xs.getD (flat ((numberToIndex i shape).set axis k) shape) 0)
  have key := foldl_inplace_inv (fun i => decide (0 < (numberToIndex i shape).getD axis 0))
    (fun i => indexToNumber ((numberToIndex i shape).set axis ((numberToIndex i shape).getD axis 0 - 1)) shape)
    (fun a b => addU128 a b (modulus st)) (xs.map (ext st))
    (fun i v => low st v = st.ofInt (S i)) ?hpr ?hbase ?hstep (xs.map (ext st)).length (Nat.le_refl _)
    (flat I shape)
  case hpr =>
    intro i hi hc
    rw [hn] at hi
    have hv := numberToIndex_valid hpos hi
    have hd : 0 < (numberToIndex i shape).getD axis 0 := by simpa using hc
    have hb := validIdx_getD hv axis hax
    rw [indexToNumber_eq_flat (validIdx_set hv axis _ hax (by omega))]
    have := flat_set_lt hv axis ((numberToIndex i shape).getD axis 0 - 1) hax (by omega)
    rw [flat_numberToIndex hpos hi] at this
    exact this
  case hbase =>
    intro i hi hc
    rw [hn] at hi
    have hv := numberToIndex_valid hpos hi
    have hd : (numberToIndex i shape).getD axis 0 = 0 := by
      have : ¬ 0 < (numberToIndex i shape).getD axis 0 := by simpa using hc
      omega
    have hS : S i = st.toInt (xs.getD i 0) := by
      show Spec.sumTo ((numberToIndex i shape).getD axis 0 + 1) _ = _
      rw [hd, sumTo_succ]
      simp only [Spec.sumTo, List.range_zero, List.map_nil, List.sum_nil, Int.zero_add]
      rw [← hd, set_getD_self _ _ (by rw [validIdx_length hv]; exact hax), flat_numberToIndex hpos hi]
    show low st _ = st.ofInt (S i)
    rw [hS, getD_map_ext, low_eq_ofInt]
    exact ofInt_congr _ _ _ (toInt_ext st _).symm
  case hstep =>
    intro i hi hc v hQ
    rw [hn] at hi
    have hv := numberToIndex_valid hpos hi
    have hd : 0 < (numberToIndex i shape).getD axis 0 := by simpa using hc
    have hb := validIdx_getD hv axis hax
    have hal : axis < (numberToIndex i shape).length := by rw [validIdx_length hv]; exact hax
    have hv' := validIdx_set hv axis ((numberToIndex i shape).getD axis 0 - 1) hax (by omega)
    -- the predecessor cell
    have hprI : numberToIndex (indexToNumber ((numberToIndex i shape).set axis
        ((numberToIndex i shape).getD axis 0 - 1)) shape) shape
        = (numberToIndex i shape).set axis ((numberToIndex i shape).getD axis 0 - 1) :=
      numberToIndex_indexToNumber hv'
    have hSp : S (indexToNumber ((numberToIndex i shape).set axis
        ((numberToIndex i shape).getD axis 0 - 1)) shape)
        = Spec.sumTo ((numberToIndex i shape).getD axis 0) fun k =>
            st.toInt (xs.getD (flat ((numberToIndex i shape).set axis k) shape) 0) := by
      show Spec.sumTo _ _ = _
      rw [hprI, getD_set_idx _ _ _ _ hal, if_pos rfl,
        show (numberToIndex i shape).getD axis 0 - 1 + 1 = (numberToIndex i shape).getD axis 0 by omega]
      simp only [List.set_set]
    have hS : S i = S (indexToNumber ((numberToIndex i shape).set axis
        ((numberToIndex i shape).getD axis 0 - 1)) shape) + st.toInt (xs.getD i 0) := by
      rw [hSp]
      show Spec.sumTo ((numberToIndex i shape).getD axis 0 + 1) _ = _
      rw [sumTo_succ, set_getD_self _ _ hal, flat_numberToIndex hpos hi]
    show low st _ = st.ofInt (S i)
    have hQ' := emod_of_low_eq st v _ hQ
    rw [hS, getD_map_ext, low_eq_ofInt]
    apply ofInt_congr
    rw [addU128_emod, Int.add_comm]
    exact add_congr _ _ _ _ _ hQ' (toInt_ext st _).symm
  have hfl : flat I shape < (xs.map (ext st)).length := by rw [hn]; exact flat_lt hI
  rw [cumSum_eq, getD_map_low _ _ _ (by rw [foldl_inplace_length]; exact hfl)]
  have := key.1 hfl
  rw [this]
  simp only [S, Spec.cumSum, Spec.ofFlat, numberToIndex_flat hI]

example : cumSum .i8 [2, 2] [1, 2, 3, 4] 1 = [1, 3, 3, 7] := by decide
example : cumSum .i8 [2, 3] [1, 2, 3, 4, 5, 250] 0 = [1, 2, 3, 5, 7, 253] := by decide
example : cumSum .u8 [3] [100, 100, 100] 0 = [100, 200, 44] := by decide

end CCV.Ops
