import CCV.Model.Context
/-
  Helper lemmas for C11: association lists (`tget`/`tremove`/`tinsert`/`tpush`) and list updates.
  Core only.
-/
namespace CCV.Context

variable {K V : Type} [DecidableEq K]

theorem tget_tremove (t : List (K × V)) (k k' : K) :
    tget (tremove t k) k' = if k = k' then none else tget t k' := by
  induction t with
  | nil => simp [tremove, tget]
  | cons p t ih =>
    obtain ⟨a, v⟩ := p
    by_cases h1 : a = k <;> by_cases h2 : a = k' <;> by_cases h3 : k = k' <;>
      simp_all [tremove, tget]

theorem tget_tinsert (t : List (K × V)) (k k' : K) (v : V) :
    tget (tinsert t k v) k' = if k = k' then some v else tget t k' := by
  by_cases h : k = k'
  · simp [tinsert, tget, h]
  · simp [tinsert, tget, h, tget_tremove]

theorem tremove_of_tget_none (t : List (K × V)) (k : K) (h : tget t k = none) :
    tremove t k = t := by
  induction t with
  | nil => rfl
  | cons p t ih =>
    obtain ⟨a, v⟩ := p
    by_cases h1 : a = k
    · simp [tget, h1] at h
    · simp [tget, h1] at h
      simp [tremove, h1, ih h]

theorem tget_tpush (t : List (K × List Nat)) (k k' : K) (a : Nat) :
    tget (tpush t k a) k' = if k = k' then some ((tget t k).getD [] ++ [a]) else tget t k' := by
  unfold tpush
  cases h : tget t k <;> simp [tget_tinsert]

/-- keys of a table -/
def keys (t : List (K × V)) : List K := t.map (·.1)

theorem mem_keys_tremove (t : List (K × V)) (k x : K) :
    x ∈ keys (tremove t k) ↔ x ∈ keys t ∧ x ≠ k := by
  induction t with
  | nil => simp [tremove, keys]
  | cons p t ih =>
    obtain ⟨a, v⟩ := p
    unfold keys at ih ⊢
    by_cases h1 : a = k
    · subst h1
      simp only [tremove, if_true, ih, List.map_cons, List.mem_cons]
      constructor
      · intro h; exact ⟨Or.inr h.1, h.2⟩
      · intro h
        rcases h.1 with h' | h'
        · exact absurd h' h.2
        · exact ⟨h', h.2⟩
    · simp only [tremove, h1, if_false, List.map_cons, List.mem_cons, ih]
      constructor
      · rintro (h | h)
        · subst h; exact ⟨Or.inl rfl, h1⟩
        · exact ⟨Or.inr h.1, h.2⟩
      · rintro ⟨h | h, h2⟩
        · exact Or.inl h
        · exact Or.inr ⟨h, h2⟩

theorem nodup_keys_tremove (t : List (K × V)) (k : K) (h : (keys t).Nodup) :
    (keys (tremove t k)).Nodup := by
  induction t with
  | nil => simp [tremove, keys]
  | cons p t ih =>
    obtain ⟨a, v⟩ := p
    simp only [keys, List.map_cons, List.nodup_cons] at h
    by_cases h1 : a = k
    · simp only [tremove, h1, if_true]
      exact ih h.2
    · simp only [tremove, h1, if_false, keys, List.map_cons, List.nodup_cons]
      refine ⟨?_, ih h.2⟩
      intro hm
      have := (mem_keys_tremove t k a).1 hm
      exact h.1 this.1

theorem nodup_keys_tinsert (t : List (K × V)) (k : K) (v : V) (h : (keys t).Nodup) :
    (keys (tinsert t k v)).Nodup := by
  simp only [tinsert, keys, List.map_cons, List.nodup_cons]
  refine ⟨?_, nodup_keys_tremove t k h⟩
  intro hm
  exact ((mem_keys_tremove t k k).1 hm).2 rfl

theorem nodup_keys_tpush (t : List (K × List Nat)) (k : K) (a : Nat) (h : (keys t).Nodup) :
    (keys (tpush t k a)).Nodup := by
  unfold tpush
  cases tget t k <;> exact nodup_keys_tinsert _ _ _ h

end CCV.Context
