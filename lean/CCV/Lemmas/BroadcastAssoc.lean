import CCV.Lemmas.TypeInfer
/-
  Helper lemmas for C09: associativity of `broadcast_shapes` (positive dimensions).  Both bracketings
  are characterised column by column in the common width `max(|a|,|b|,|c|)` (`bracketL_iff`); the
  three-way column rule does not depend on the order of its arguments (`triL_rot`).
-/
namespace CCV.TI
open CCV CCV.TV

/-! ### associativity of `broadcast_shapes` -/

/-- the loop returns a list as soon as every step succeeds -/
theorem loopE_total {β : Type} (f : Nat → Except String β) : ∀ (k i : Nat),
    (∀ j, j < k → ∃ b, f (i + j) = .ok b) → ∃ r, loopE f i k = .ok r
  | 0, _, _ => ⟨[], rfl⟩
  | k + 1, i, h => by
    obtain ⟨b, hb⟩ := h 0 (by omega)
    obtain ⟨bs, hbs⟩ := loopE_total f k (i + 1) (fun j hj => by
      have := h (j + 1) (by omega)
      simpa [Nat.add_assoc, Nat.add_comm 1 j] using this)
    refine ⟨b :: bs, ?_⟩
    simp only [loopE]
    rw [Nat.add_zero] at hb
    rw [hb, hbs]

/-- column `j` of a shape right-aligned in width `n` (1 left of the shape) -/
def col (s : List Nat) (n j : Nat) : Nat := dimAt s (n - s.length) j

theorem col_lt (s : List Nat) (n j : Nat) (h : j < n - s.length) : col s n j = 1 := by
  unfold col dimAt
  rw [if_neg (by omega)]

theorem col_pos {s : List Nat} (hs : ∀ d ∈ s, 0 < d) (n j : Nat) : 0 < col s n j := dimAt_pos hs _ _

/-- re-aligning: column `j ≥ n - m` in width `n` is column `j - (n - m)` in width `m` -/
theorem col_shift (s : List Nat) (m n j : Nat) (hm : s.length ≤ m) (hn : m ≤ n) (hj : n - m ≤ j) :
    col s m (j - (n - m)) = col s n j := by
  unfold col dimAt
  by_cases h : n - s.length ≤ j
  · rw [if_pos h, if_pos (by omega)]
    congr 1
    omega
  · rw [if_neg h, if_neg (by omega)]

theorem col_self (s : List Nat) (m j : Nat) (hm : s.length = m) (h : j < s.length) : col s m j = s[j] := by
  unfold col
  have : m - s.length = 0 := by omega
  rw [this]
  exact dimAt_zero_lt s j h

theorem bcastDim_one_one : bcastDim 1 1 = .ok 1 := by simp [bcastDim]

theorem maxLen_ge (s1 s2 : List Nat) : s1.length ≤ maxLen s1 s2 ∧ s2.length ≤ maxLen s1 s2 := by
  unfold maxLen; split <;> omega

/-- `broadcast_shapes` column by column in any width `n ≥` both ranks -/
theorem broadcastShapes_padded (s1 s2 r : List Nat) (n : Nat) (hn : maxLen s1 s2 ≤ n) :
    broadcastShapes s1 s2 = .ok r ↔
      (r.length = maxLen s1 s2 ∧ ∀ j, j < n → bcastDim (col s1 n j) (col s2 n j) = .ok (col r n j)) := by
  obtain ⟨h1, h2⟩ := maxLen_ge s1 s2
  rw [broadcastShapes_ok_iff]
  generalize maxLen s1 s2 = M at *
  constructor
  · rintro ⟨hl, hd⟩
    refine ⟨hl, ?_⟩
    intro j hj
    by_cases hjm : n - M ≤ j
    · have hk : j - (n - M) < r.length := by omega
      have := hd _ hk
      rw [← col_shift s1 M n j h1 hn hjm, ← col_shift s2 M n j h2 hn hjm,
        ← col_shift r M n j (Nat.le_of_eq hl) hn hjm, col_self r M _ hl hk]
      exact this
    · rw [col_lt s1 n j (by omega), col_lt s2 n j (by omega), col_lt r n j (by omega)]
      exact bcastDim_one_one
  · rintro ⟨hl, hd⟩
    refine ⟨hl, ?_⟩
    intro k hk
    have hjm : n - M ≤ k + (n - M) := by omega
    have := hd (k + (n - M)) (by omega)
    rw [← col_shift s1 M n _ h1 hn hjm, ← col_shift s2 M n _ h2 hn hjm,
      ← col_shift r M n _ (Nat.le_of_eq hl) hn hjm, Nat.add_sub_cancel, col_self r M _ hl hk] at this
    exact this

/-- the column rule on positive dimensions, as a relation -/
theorem bcastDim_iff {x y c : Nat} (hx : 0 < x) (hy : 0 < y) :
    bcastDim x y = .ok c ↔ ((x = c ∨ x = 1) ∧ (y = c ∨ y = 1) ∧ (c = x ∨ c = y)) := by
  constructor
  · intro h
    obtain ⟨h1, h2, _⟩ := bcastDim_ok_pos hx hy h
    obtain ⟨_, h3⟩ := bcastDim_ok h
    refine ⟨h1, h2, ?_⟩
    rw [h3]; split <;> simp
  · intro h
    unfold bcastDim
    rw [if_neg (by omega)]
    congr 1
    split <;> omega

/-- three-way column rule, left bracketing -/
def triL (x y z : Nat) : Option Nat :=
  match bcastDim x y with
  | .ok xy => (bcastDim xy z).toOption
  | .error _ => none

theorem toOption_eq_some {α : Type} {e : Except String α} {r : α} : e.toOption = some r ↔ e = .ok r := by
  cases e <;> simp [Except.toOption]

theorem triL_iff (x y z r : Nat) : triL x y z = some r ↔ ∃ xy, bcastDim x y = .ok xy ∧ bcastDim xy z = .ok r := by
  unfold triL
  cases h : bcastDim x y with
  | error e => simp
  | ok xy => simp [toOption_eq_some]

/-- the three-way rule does not depend on the order in which the columns are combined -/
theorem triL_rot (x y z : Nat) (hx : 0 < x) (hy : 0 < y) (hz : 0 < z) : triL x y z = triL y z x := by
  apply Option.ext
  intro r
  simp only [triL_iff]
  constructor
  · rintro ⟨xy, h1, h2⟩
    have p1 := (bcastDim_iff hx hy).mp h1
    have hxy : 0 < xy := by omega
    have p2 := (bcastDim_iff hxy hz).mp h2
    have hyz : 0 < (if y ≤ z then z else y) := by split <;> omega
    refine ⟨if y ≤ z then z else y, (bcastDim_iff hy hz).mpr ?_, (bcastDim_iff hyz hx).mpr ?_⟩
    · split <;> omega
    · split <;> omega
  · rintro ⟨yz, h1, h2⟩
    have p1 := (bcastDim_iff hy hz).mp h1
    have hyz : 0 < yz := by omega
    have p2 := (bcastDim_iff hyz hx).mp h2
    have hxy : 0 < (if x ≤ y then y else x) := by split <;> omega
    refine ⟨if x ≤ y then y else x, (bcastDim_iff hx hy).mpr ?_, (bcastDim_iff hxy hz).mpr ?_⟩
    · split <;> omega
    · split <;> omega

/-- the larger of three ranks -/
def n3 (x y z : Nat) : Nat := if x ≤ y then (if y ≤ z then z else y) else (if x ≤ z then z else x)

theorem n3_rot (x y z : Nat) : n3 x y z = n3 y z x := by
  unfold n3; split <;> split <;> split <;> (try split) <;> omega

/-- `(a·b)·c`, column by column in the common width -/
theorem bracketL_iff (a b c r : List Nat) :
    (match broadcastShapes a b with
      | .ok ab => (broadcastShapes ab c).toOption
      | .error _ => none) = some r ↔
    (r.length = n3 a.length b.length c.length ∧
      ∀ j, j < n3 a.length b.length c.length →
        triL (col a (n3 a.length b.length c.length) j) (col b (n3 a.length b.length c.length) j)
          (col c (n3 a.length b.length c.length) j) = some (col r (n3 a.length b.length c.length) j)) := by
  generalize hN : n3 a.length b.length c.length = N
  have hM : maxLen a b ≤ N := by rw [← hN]; unfold maxLen n3; split <;> split <;> omega
  have hNc : ∀ ab : List Nat, ab.length = maxLen a b → maxLen ab c = N := by
    intro ab hab
    rw [← hN]; unfold maxLen n3 at *; rw [hab]; split <;> split <;> (try split) <;> omega
  constructor
  · intro h
    cases hab : broadcastShapes a b with
    | error e => rw [hab] at h; cases h
    | ok ab =>
      rw [hab] at h
      have h : (broadcastShapes ab c).toOption = some r := h
      have h := toOption_eq_some.mp h
      obtain ⟨l1, d1⟩ := (broadcastShapes_padded a b ab N hM).mp hab
      obtain ⟨l2, d2⟩ := (broadcastShapes_padded ab c r N (Nat.le_of_eq (hNc ab l1))).mp h
      refine ⟨by rw [l2, hNc ab l1], ?_⟩
      intro j hj
      exact (triL_iff _ _ _ _).mpr ⟨_, d1 j hj, d2 j hj⟩
  · rintro ⟨hl, hd⟩
    -- construct `ab`
    have hex : ∃ ab, broadcastShapes a b = .ok ab := by
      rw [broadcastShapes_eq]
      apply loopE_total
      intro k hk
      obtain ⟨xy, h1, _⟩ := (triL_iff _ _ _ _).mp (hd (k + (N - maxLen a b)) (by omega))
      have hjm : N - maxLen a b ≤ k + (N - maxLen a b) := by omega
      rw [← col_shift a _ N _ (maxLen_ge a b).1 hM hjm, ← col_shift b _ N _ (maxLen_ge a b).2 hM hjm,
        Nat.add_sub_cancel] at h1
      exact ⟨xy, by simpa [col] using h1⟩
    obtain ⟨ab, hab⟩ := hex
    rw [hab]
    show (broadcastShapes ab c).toOption = some r
    apply toOption_eq_some.mpr
    obtain ⟨l1, d1⟩ := (broadcastShapes_padded a b ab N hM).mp hab
    refine (broadcastShapes_padded ab c r N (Nat.le_of_eq (hNc ab l1))).mpr ⟨by rw [hl, hNc ab l1], ?_⟩
    intro j hj
    obtain ⟨xy, h1, h2⟩ := (triL_iff _ _ _ _).mp (hd j hj)
    have : xy = col ab N j := by
      have := (d1 j hj).symm.trans h1
      injection this with this
      exact this.symm
    rw [← this]
    exact h2

theorem broadcastShapes_assoc (a b c : List Nat) (ha : ∀ d ∈ a, 0 < d) (hb : ∀ d ∈ b, 0 < d)
    (hc : ∀ d ∈ c, 0 < d) :
    (match broadcastShapes a b with
      | .ok ab => (broadcastShapes ab c).toOption
      | .error _ => none) =
    (match broadcastShapes b c with
      | .ok bc => (broadcastShapes a bc).toOption
      | .error _ => none) := by
  have e : (match broadcastShapes b c with
      | .ok bc => (broadcastShapes a bc).toOption
      | .error _ => none) =
      (match broadcastShapes b c with
      | .ok bc => (broadcastShapes bc a).toOption
      | .error _ => none) := by
    cases broadcastShapes b c with
    | error e => rfl
    | ok bc => simp only [broadcastShapes_comm a bc]
  rw [e]
  apply Option.ext
  intro r
  rw [bracketL_iff a b c r, bracketL_iff b c a r, n3_rot b.length c.length a.length,
    n3_rot c.length a.length b.length]
  constructor
  · rintro ⟨hl, hd⟩
    refine ⟨hl, fun j hj => ?_⟩
    rw [← triL_rot _ _ _ (col_pos ha _ _) (col_pos hb _ _) (col_pos hc _ _)]
    exact hd j hj
  · rintro ⟨hl, hd⟩
    refine ⟨hl, fun j hj => ?_⟩
    rw [triL_rot _ _ _ (col_pos ha _ _) (col_pos hb _ _) (col_pos hc _ _)]
    exact hd j hj

end CCV.TI
