import CCV.Model.Scalar
/-
  Helpers of the line-protocol driver: parsing and canonical printing.
  Conventions: tokens are separated by single spaces; a list of integers is comma-separated,
  the empty list is `_`; errors print as `ERR` (the harness maps every implementation `Err`
  to the same token — messages are not compared); unknown requests print `BAD-OP`.
-/
namespace CCV.Drv

def parseInt? (s : String) : Option Int := s.toInt?

def parseNat? (s : String) : Option Nat := s.toNat?

def parseIntList? (s : String) : Option (List Int) :=
  if s == "_" then some [] else (s.splitOn ",").mapM parseInt?

def parseNatList? (s : String) : Option (List Nat) :=
  if s == "_" then some [] else (s.splitOn ",").mapM parseNat?

def showList [ToString α] (xs : List α) : String :=
  if xs.isEmpty then "_" else ",".intercalate (xs.map toString)

def showExcept [ToString α] : Except String (List α) → String
  | .ok xs => showList xs
  | .error _ => "ERR"

def showBool (b : Bool) : String := if b then "1" else "0"

end CCV.Drv
