import CCV.Drv.Util
import CCV.Model.Truncate
namespace CCV.Drv.C05
open CCV CCV.Drv CCV.Truncate

def show3 (y : Nat × Nat × Nat) : String := s!"{y.1},{y.2.1},{y.2.2}"

/-- requests (s = bit width, sg = 1 signed / 0 unsigned, all values residues in decimal):
  `shares <s> <sg> <scale> <x0,x1,x2> <masks|_>` → output shares `y0,y1,y2` of the compiled private Truncate
  `reveal <s> <sg> <scale> <x0,x1,x2> <masks|_>` → revealed output `(y0+y1+y2) mod 2^s`
  `public <s> <sg> <scale> <x>`                  → compiled Truncate of a public value
  `plain <s> <sg> <scale> <x>`                   → plaintext `Operation::Truncate`
  `accepts <s> <sg> <scale>`                     → 1 iff the compiler accepts Truncate(scale) on this type -/
def handle : List String → String
  | ["shares", s, sg, d, xs, ms] =>
    match parseNat? s, parseNat? sg, parseNat? d, parseNatList? xs, parseNatList? ms with
    | some s, some sg, some d, some [x0, x1, x2], some ms =>
      match truncPrivate s (sg == 1) d x0 x1 x2 ms with
      | .ok y => show3 y
      | .error _ => "ERR"
    | _, _, _, _, _ => "BAD-OP"
  | ["reveal", s, sg, d, xs, ms] =>
    match parseNat? s, parseNat? sg, parseNat? d, parseNatList? xs, parseNatList? ms with
    | some s, some sg, some d, some [x0, x1, x2], some ms =>
      match truncPrivate s (sg == 1) d x0 x1 x2 ms with
      | .ok y => toString (reveal s y)
      | .error _ => "ERR"
    | _, _, _, _, _ => "BAD-OP"
  | ["public", s, sg, d, x] =>
    match parseNat? s, parseNat? sg, parseNat? d, parseNat? x with
    | some s, some sg, some d, some x =>
      match truncPublic s (sg == 1) d x with
      | .ok y => toString y
      | .error _ => "ERR"
    | _, _, _, _ => "BAD-OP"
  | ["plain", s, sg, d, x] =>
    match parseNat? s, parseNat? sg, parseNat? d, parseNat? x with
    | some s, some sg, some d, some x => toString (truncPlain s (sg == 1) d x)
    | _, _, _, _ => "BAD-OP"
  | ["accepts", s, sg, d] =>
    match parseNat? s, parseNat? sg, parseNat? d with
    | some _, some sg, some d => showBool (choose (sg == 1) d != .reject)
    | _, _, _ => "BAD-OP"
  | _ => "BAD-OP"

end CCV.Drv.C05
