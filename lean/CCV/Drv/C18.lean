import CCV.Drv.Util
import CCV.Model.Sort
namespace CCV.Drv.C18
open CCV CCV.Drv CCV.Sort

def showOptList [ToString α] : Option (List α) → String
  | some xs => showList xs
  | none => "ERR"

/-- `p1;p2;…` (each a comma list), `_` = none -/
def parsePerms? (s : String) : Option (List (List Nat)) :=
  if s == "_" then some [] else (s.splitOn ";").mapM parseNatList?

/-- requests (flat arrays row-major, comma separated; `n` = number of rows):
  `perm <n> <keybits>`                         → `get_sorting_permutation`
  `sortcol <n> <keybits> <col>`                → the column (flat) gathered by the sorting permutation
  `permint <signed> <w> <keys>`                → sorting permutation of `SortByIntegerKey` (`w = 0`: BIT)
  `radix <chunk> <n> <b> <keybits> <pis> <piLast>` → the index column `0..n-1` sorted by the radix sort
  `applyperm <inv> <n> <p> <col>`              → `ApplyPermutation(inv)` on the flat column, `ERR`
  `invperm <p>`                                → `InversePermutation`, `ERR`
  `isperm <p>`                                 → validity test of `InversePermutation` -/
def handle : List String → String
  | ["perm", n, keys] =>
    match parseNat? n, parseNatList? keys with
    | some n, some keys => showList (sortPerm (rowsOf n keys))
    | _, _ => "BAD-OP"
  | ["sortcol", n, keys, col] =>
    match parseNat? n, parseNatList? keys, parseIntList? col with
    | some n, some keys, some col =>
      match sortColumns (rowsOf n keys) [rowsOf n col] with
      | some [c] => showList c.flatten
      | _ => "ERR"
    | _, _, _ => "BAD-OP"
  | ["permint", s, w, keys] =>
    match parseNat? s, parseNat? w, parseIntList? keys with
    | some s, some w, some keys => showList (sortPermInt (s == 1) w keys)
    | _, _, _ => "BAD-OP"
  | ["radix", chunk, n, b, keys, pis, piLast] =>
    match parseNat? chunk, parseNat? n, parseNat? b, parseNatList? keys, parsePerms? pis, parseNatList? piLast with
    | some chunk, some n, some b, some keys, some pis, some piLast =>
      match radixSort chunk b (rowsOf n keys) pis piLast [List.range n] with
      | some [c] => showList c
      | _ => "ERR"
    | _, _, _, _, _, _ => "BAD-OP"
  | ["applyperm", inv, n, p, col] =>
    match parseNat? inv, parseNat? n, parseNatList? p, parseIntList? col with
    | some inv, some n, some p, some col =>
      match applyPermOp (inv == 1) (rowsOf n col) p with
      | some c => showList c.flatten
      | none => "ERR"
    | _, _, _, _ => "BAD-OP"
  | ["invperm", p] =>
    match parseNatList? p with
    | some p => showOptList (inversePerm p)
    | none => "BAD-OP"
  | ["isperm", p] =>
    match parseNatList? p with
    | some p => showBool (isPerm p)
    | none => "BAD-OP"
  | _ => "BAD-OP"

end CCV.Drv.C18
