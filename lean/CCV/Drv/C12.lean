import CCV.Drv.Util
import CCV.Model.Serde
namespace CCV.Drv.C12
open CCV CCV.Drv CCV.Serde

/-- requests (a context is one comma-separated list of naturals, see `Serde.encSer`):
  `ser <ctx>`      the abstract context with its tables in the listed (hash-map) order
                   → encoding of `toSer` (what `Context::make_serializable` writes)
  `recover <ser>`  a serialised form (tables as listed) → `ok <encoding of toSer of the recovered
                   context>` or `ERR` (`recover_original_context`) -/
def handle : List String → String
  | ["ser", xs] =>
    match parseNatList? xs with
    | some ts =>
      match parseSer ts with
      | some s => showList (encSer (toSer s.asCtx))
      | none => "BAD-OP"
    | none => "BAD-OP"
  | ["recover", xs] =>
    match parseNatList? xs with
    | some ts =>
      match parseSer ts with
      | some s =>
        match recover s with
        | .ok c => "ok " ++ showList (encSer (toSer c))
        | .error _ => "ERR"
      | none => "BAD-OP"
    | none => "BAD-OP"
  | _ => "BAD-OP"

end CCV.Drv.C12
