import CCV.Model.Ops
import CCV.Model.OpsExt
import CCV.Drv.Util
/-
  Line protocol of property C10 (one-operation requests; all elements are stored residues in
  decimal, lists comma separated, `_` = empty list, `n` = None, errors print `ERR`).

    n2i <num> <shape>                        number_to_index
    i2n <index> <shape>                      index_to_number
    k128|k64 add|sub|mul <m|n> <xs> <ys>     vector kernels of bytes.rs
    k128|k64 dot <m|n> <xs> <ys>             dot_vectors_*
    k64 sum <m|n> <xs>                       sum_vector_u64
    add|sub|mul <st> <s1> <xs> <s2> <ys> <sr>
    mixmul <st> <s1> <xs> <s2> <bits> <sr>
    dot|matmul <st> <s0> <xs> <s1> <ys> <sr>
    gemm <st> <t0> <t1> <s0> <xs> <s1> <ys> <sr>
    sum <st> <shape> <xs> <axes> <sr|s>
    cumsum <st> <shape> <xs> <axis>
    permute <shape> <xs> <perm> <sr>
    get <shape> <xs> <subindex>
    getslice <shape> <xs> <slice> <resdims>   slice = elements joined by ';': i<k> | e | a<b>:<e>:<s>
    sliceshape <shape> <slice>
    reshape <xs>
    stack <outer> <full> <k> (<dims> <xs>)*k
    concat <axis> <sr> <k> (<shape> <xs>)*k
    a2v <shape> <xs>                          rows joined by ';'
    v2a <k> <xs>*k
    gather <shape> <xs> <indices> <axis>
    invperm <xs>
    applyperm <inv> <shape> <xs> <perm>
    trunc <st> <scale> <xs>
    a2b <st> <xs>       b2a <st> <bits>
    segcs <st> <rowsize> <xs> <bits> <first>                      SegmentCumSum
    cuckoo <numsets> <n> <b> <h> <rows> <cols> <inputbits> <hm>   CuckooHash
    zip <k> <vec>*k          vec = elements joined by ';' (each a list); answer: rows joined by '|'
    repeat <n> <xs>          answer: elements joined by ';'
    tupleget <id> <vec>      vecget <id> <vec>      namedget <name> <names joined by ';'> <vec>
-/
namespace CCV.Drv.C10
open CCV CCV.Ops CCV.Shape CCV.Slices CCV.Drv

def parseOptNat? (s : String) : Option (Option Nat) :=
  if s == "n" then some none else (parseNat? s).map some

def parseOptInt? (s : String) : Option (Option Int) :=
  if s == "n" then some none else (parseInt? s).map some

def parseSE? (s : String) : Option SE :=
  if s == "e" then some SE.ellipsis
  else if s.startsWith "i" then (parseInt? (s.drop 1).toString).map SE.single
  else if s.startsWith "a" then
    match ((s.drop 1).toString).splitOn ":" with
    | [b, e, st] =>
      match parseOptInt? b, parseOptInt? e, parseOptInt? st with
      | some b, some e, some st => some (SE.sub b e st)
      | _, _, _ => none
    | _ => none
  else none

def parseSlice? (s : String) : Option (List SE) :=
  if s == "_" then some [] else (s.splitOn ";").mapM parseSE?

def parseBool? (s : String) : Option Bool :=
  if s == "1" then some true else if s == "0" then some false else none

/-- `k` pairs `(dims, xs)` -/
def parsePairs? : Nat → List String → Option (List (List Nat × List Nat))
  | 0, [] => some []
  | k + 1, d :: x :: rest =>
    match parseNatList? d, parseNatList? x, parsePairs? k rest with
    | some d, some x, some r => some ((d, x) :: r)
    | _, _, _ => none
  | _, _ => none

def showExceptNat : Except String Nat → String
  | .ok x => toString x
  | .error _ => "ERR"

def showRows (rows : List (List Nat)) : String :=
  if rows.isEmpty then "_" else ";".intercalate (rows.map showList)

def kernel? (wide : Bool) (op : String) : Option (Nat → Nat → Option Nat → Nat) :=
  match wide, op with
  | true, "add" => some addU128 | true, "sub" => some subU128 | true, "mul" => some mulU128
  | false, "add" => some addU64 | false, "sub" => some subU64 | false, "mul" => some mulU64
  | _, _ => none

def handleKernel (wide : Bool) : List String → String
  | ["dot", m, xs, ys] =>
    match parseOptNat? m, parseNatList? xs, parseNatList? ys with
    | some m, some xs, some ys => showExceptNat (if wide then dotU128 xs ys m else dotU64 xs ys m)
    | _, _, _ => "BAD-OP"
  | ["sum", m, xs] =>
    match parseOptNat? m, parseNatList? xs with
    | some m, some xs => toString (sumU64 xs m)
    | _, _ => "BAD-OP"
  | [op, m, xs, ys] =>
    match kernel? wide op, parseOptNat? m, parseNatList? xs, parseNatList? ys with
    | some f, some m, some xs, some ys => showExcept (zipK f xs ys m)
    | _, _, _, _ => "BAD-OP"
  | _ => "BAD-OP"

/-- a vector of arrays: elements joined by ';' (`-` = the empty vector) -/
def parseVec? (s : String) : Option (List (List Nat)) :=
  if s == "-" then some [] else (s.splitOn ";").mapM parseNatList?

/-- rows of a zipped vector joined by '|', the entries of a row by ';' -/
def showZip (rows : List (List (List Nat))) : String :=
  if rows.isEmpty then "-" else "|".intercalate (rows.map fun r => ";".intercalate (r.map showList))

def arithOp? : String → Option Arith
  | "add" => some .add | "sub" => some .sub | "mul" => some .mul | _ => none

def handle : List String → String
  | ["n2i", n, sh] =>
    match parseNat? n, parseNatList? sh with
    | some n, some sh => showList (numberToIndex n sh)
    | _, _ => "BAD-OP"
  | ["i2n", ix, sh] =>
    match parseNatList? ix, parseNatList? sh with
    | some ix, some sh => toString (indexToNumber ix sh)
    | _, _ => "BAD-OP"
  | "k128" :: rest => handleKernel true rest
  | "k64" :: rest => handleKernel false rest
  | ["mixmul", st, s1, xs, s2, ys, sr] =>
    match ST.parse st, parseNatList? s1, parseNatList? xs, parseNatList? s2, parseNatList? ys, parseNatList? sr with
    | some st, some s1, some xs, some s2, some ys, some sr => showExcept (mixedMultiply st s1 xs s2 ys sr)
    | _, _, _, _, _, _ => "BAD-OP"
  | ["dot", st, s0, xs, s1, ys, sr] =>
    match ST.parse st, parseNatList? s0, parseNatList? xs, parseNatList? s1, parseNatList? ys, parseNatList? sr with
    | some st, some s0, some xs, some s1, some ys, some sr => showList (dot st s0 xs s1 ys sr)
    | _, _, _, _, _, _ => "BAD-OP"
  | ["matmul", st, s0, xs, s1, ys, sr] =>
    match ST.parse st, parseNatList? s0, parseNatList? xs, parseNatList? s1, parseNatList? ys, parseNatList? sr with
    | some st, some s0, some xs, some s1, some ys, some sr => showList (matmul st s0 xs s1 ys sr)
    | _, _, _, _, _, _ => "BAD-OP"
  | ["gemm", st, t0, t1, s0, xs, s1, ys, sr] =>
    match ST.parse st, parseBool? t0, parseBool? t1, parseNatList? s0, parseNatList? xs, parseNatList? s1,
      parseNatList? ys, parseNatList? sr with
    | some st, some t0, some t1, some s0, some xs, some s1, some ys, some sr =>
      showExcept (gemm st t0 t1 s0 xs s1 ys sr)
    | _, _, _, _, _, _, _, _ => "BAD-OP"
  | ["sum", st, sh, xs, axes, sr] =>
    match ST.parse st, parseNatList? sh, parseNatList? xs, parseNatList? axes with
    | some st, some sh, some xs, some axes =>
      if sr == "s" then showList (sum st sh xs axes none)
      else match parseNatList? sr with
        | some sr => showList (sum st sh xs axes (some sr))
        | none => "BAD-OP"
    | _, _, _, _ => "BAD-OP"
  | ["cumsum", st, sh, xs, axis] =>
    match ST.parse st, parseNatList? sh, parseNatList? xs, parseNat? axis with
    | some st, some sh, some xs, some axis => showList (cumSum st sh xs axis)
    | _, _, _, _ => "BAD-OP"
  | ["permute", sh, xs, perm, sr] =>
    match parseNatList? sh, parseNatList? xs, parseNatList? perm, parseNatList? sr with
    | some sh, some xs, some perm, some sr => showList (permuteAxes xs sh perm sr)
    | _, _, _, _ => "BAD-OP"
  | ["get", sh, xs, sub] =>
    match parseNatList? sh, parseNatList? xs, parseNatList? sub with
    | some sh, some xs, some sub => showList (get sh xs sub)
    | _, _, _ => "BAD-OP"
  | ["getslice", sh, xs, sl, rd] =>
    match parseNatList? sh, parseNatList? xs, parseSlice? sl, parseNatList? rd with
    | some sh, some xs, some sl, some rd => showExcept (getSlice sh xs sl rd)
    | _, _, _, _ => "BAD-OP"
  | ["sliceshape", sh, sl] =>
    match parseNatList? sh, parseSlice? sl with
    | some sh, some sl => showExcept (getSliceShape sh sl)
    | _, _ => "BAD-OP"
  | ["reshape", xs] =>
    match parseNatList? xs with
    | some xs => showList xs
    | none => "BAD-OP"
  | "stack" :: outer :: full :: k :: rest =>
    match parseNatList? outer, parseNatList? full, parseNat? k with
    | some outer, some full, some k =>
      match parsePairs? k rest with
      | some ps => showList (stack outer ps full)
      | none => "BAD-OP"
    | _, _, _ => "BAD-OP"
  | "concat" :: axis :: sr :: k :: rest =>
    match parseNat? axis, parseNatList? sr, parseNat? k with
    | some axis, some sr, some k =>
      match parsePairs? k rest with
      | some ps => showList (concatenate axis ps sr)
      | none => "BAD-OP"
    | _, _, _ => "BAD-OP"
  | ["a2v", sh, xs] =>
    match parseNatList? sh, parseNatList? xs with
    | some sh, some xs => showRows (arrayToVector sh xs)
    | _, _ => "BAD-OP"
  | "v2a" :: _k :: rows =>
    match rows.mapM parseNatList? with
    | some rows => showList (vectorToArray rows)
    | none => "BAD-OP"
  | ["gather", sh, xs, idx, axis] =>
    match parseNatList? sh, parseNatList? xs, parseNatList? idx, parseNat? axis with
    | some sh, some xs, some idx, some axis => showExcept (gather sh xs idx axis)
    | _, _, _, _ => "BAD-OP"
  | ["invperm", xs] =>
    match parseNatList? xs with
    | some xs => showExcept (inversePermutation xs)
    | none => "BAD-OP"
  | ["applyperm", inv, sh, xs, perm] =>
    match parseBool? inv, parseNatList? sh, parseNatList? xs, parseNatList? perm with
    | some inv, some sh, some xs, some perm => showExcept (applyPermutation inv sh xs perm)
    | _, _, _, _ => "BAD-OP"
  | ["segcs", st, rs, xs, bits, first] =>
    match ST.parse st, parseNat? rs, parseNatList? xs, parseNatList? bits, parseNatList? first with
    | some st, some rs, some xs, some bits, some first => showList (segmentCumSum st rs xs bits first)
    | _, _, _, _, _ => "BAD-OP"
  | ["cuckoo", ns, n, b, h, rows, cols, inp, hm] =>
    match parseNat? ns, parseNat? n, parseNat? b, parseNat? h, parseNat? rows, parseNat? cols,
      parseNatList? inp, parseNatList? hm with
    | some ns, some n, some b, some h, some rows, some cols, some inp, some hm =>
      showExcept (cuckooHash inp hm ns n b h rows cols)
    | _, _, _, _, _, _, _, _ => "BAD-OP"
  | "zip" :: _k :: vecs =>
    match vecs.mapM parseVec? with
    | some vs => if vs.isEmpty then "BAD-OP" else showZip (zip vs)
    | none => "BAD-OP"
  | ["repeat", n, xs] =>
    match parseNat? n, parseNatList? xs with
    | some n, some xs => showRows (repeatV n xs)
    | _, _ => "BAD-OP"
  | ["tupleget", id, vec] =>
    match parseNat? id, parseVec? vec with
    | some id, some vs => match tupleGet (createTuple vs) id with
      | some v => showList v
      | none => "ERR"
    | _, _ => "BAD-OP"
  | ["vecget", id, vec] =>
    match parseNat? id, parseVec? vec with
    | some id, some vs => showExcept (vectorGet (createTuple vs) id)
    | _, _ => "BAD-OP"
  | ["namedget", name, names, vec] =>
    match parseVec? vec with
    | some vs => match namedTupleGet (names.splitOn ";") (createTuple vs) name with
      | some v => showList v
      | none => "ERR"
    | none => "BAD-OP"
  | ["trunc", st, scale, xs] =>
    match ST.parse st, parseNat? scale, parseNatList? xs with
    | some st, some scale, some xs => showList (truncate st scale xs)
    | _, _, _ => "BAD-OP"
  | ["a2b", st, xs] =>
    match ST.parse st, parseNatList? xs with
    | some st, some xs => showExcept (a2b st xs)
    | _, _ => "BAD-OP"
  | ["b2a", st, xs] =>
    match ST.parse st, parseNatList? xs with
    | some st, some xs => showExcept (b2a st xs)
    | _, _ => "BAD-OP"
  | [op, st, s1, xs, s2, ys, sr] =>
    match arithOp? op, ST.parse st, parseNatList? s1, parseNatList? xs, parseNatList? s2, parseNatList? ys,
      parseNatList? sr with
    | some op, some st, some s1, some xs, some s2, some ys, some sr => showExcept (arith op st s1 xs s2 ys sr)
    | _, _, _, _, _, _, _ => "BAD-OP"
  | _ => "BAD-OP"

end CCV.Drv.C10
