import CCV.Drv.Util
import CCV.Model.Instantiate
namespace CCV.Drv.C08
open CCV CCV.Drv CCV.Instantiate

/-- a string as decimal code points separated by `.`; `_` is the empty string -/
def parseStr (s : String) : Option (List Char) :=
  if s == "_" then some [] else (s.splitOn ".").mapM fun t => t.toNat?.map Char.ofNat

/-- an operation token `Tag:a:b:c:str` (Tag = the Rust struct name; unused fields 0 / `_`) -/
def parseOp (s : String) : Option LibOp :=
  match s.splitOn ":" with
  | [tag, a, b, c, k] =>
    match a.toNat?, b.toNat?, c.toNat?, parseStr k with
    | some a, some b, some c, some k =>
      match tag with
      | "Not" => some .not
      | "Or" => some .or
      | "BinaryAdd" => some (.binaryAdd (a == 1))
      | "AucScore" => some (.aucScore a (b == 1))
      | "Clip2K" => some (.clip2K a)
      | "GreaterThan" => some (.greaterThan (a == 1))
      | "NotEqual" => some .notEqual
      | "LessThan" => some (.lessThan (a == 1))
      | "LessThanEqualTo" => some (.lessThanEqualTo (a == 1))
      | "GreaterThanEqualTo" => some (.greaterThanEqualTo (a == 1))
      | "Equal" => some .equal
      | "Min" => some (.min (a == 1))
      | "Max" => some (.max (a == 1))
      | "Mux" => some .mux
      | "LongDivision" => some (.longDivision (a == 1))
      | "NewtonInversion" => some (.newtonInversion a b)
      | "InverseSqrt" => some (.inverseSqrt a b)
      | "GoldschmidtDivision" => some (.goldschmidtDivision a b)
      | "TaylorExponent" => some (.taylorExponent a b)
      | "ApproxExponent" => some (.approxExponent a)
      | "ApproxGelu" => some (.approxGelu a b)
      | "ApproxGeluDerivative" => some (.approxGeluDerivative a b)
      | "ApproxSigmoid" => some (.approxSigmoid a b)
      | "FixedMultiply" => some (.fixedMultiply a (b == 1))
      | "SortByIntegerKey" => some (.sortByIntegerKey k)
      | "LowMC" => some (.lowMC a b (c == 1))
      | _ => none
    | _, _, _, _ => none
  | _ => none

/-- operations of the driver's pass: a library operation or (operations that are not public —
    e.g. `BinaryAddTransposed` — met as nested uses) the raw reported name -/
inductive DOp where
  | lib (o : LibOp)
  | other (nm : List Char)
  deriving DecidableEq

def parseDOp (s : String) : Option DOp :=
  match s.splitOn ":" with
  | ["Other", _, _, _, k] => (parseStr k).map .other
  | _ => (parseOp s).map .lib

def DOp.nameChars : DOp → List Char
  | .lib o => opNameChars o
  | .other nm => nm

def parseScalar (s : String) : Option ScalarT :=
  if s == "bit" then some ⟨false, 1⟩
  else match s.toList with
    | 'u' :: ds => (String.ofList ds).toNat?.map (⟨false, ·⟩)
    | 'i' :: ds => (String.ofList ds).toNat?.map (⟨true, ·⟩)
    | _ => none

/- types in prefix notation:
   `s <st>` | `a <st> <rank> d…` | `v <n> <ty>` | `t <k> <ty>…` | `n <k> (<name> <ty>)…` -/
mutual
partial def parseTy : List String → Option (Ty × List String)
  | "s" :: st :: rest => (parseScalar st).map fun st => (.scalar st, rest)
  | "a" :: st :: k :: rest =>
    match parseScalar st, k.toNat? with
    | some st, some k =>
      match (rest.take k).mapM (·.toNat?) with
      | some ds => if ds.length = k then some (.array ds st, rest.drop k) else none
      | none => none
    | _, _ => none
  | "v" :: n :: rest =>
    match n.toNat?, parseTy rest with
    | some n, some (t, rest) => some (.vector n t, rest)
    | _, _ => none
  | "t" :: k :: rest =>
    match k.toNat? with
    | some k => (parseTys k rest).map fun (ts, rest) => (.tuple ts, rest)
    | none => none
  | "n" :: k :: rest =>
    match k.toNat? with
    | some k => (parseFields k rest).map fun (fs, rest) => (.named fs, rest)
    | none => none
  | _ => none
partial def parseTys : Nat → List String → Option (List Ty × List String)
  | 0, rest => some ([], rest)
  | k + 1, toks =>
    match parseTy toks with
    | some (t, rest) => (parseTys k rest).map fun (ts, rest) => (t :: ts, rest)
    | none => none
partial def parseFields : Nat → List String → Option (List (List Char × Ty) × List String)
  | 0, rest => some ([], rest)
  | k + 1, nm :: toks =>
    match parseStr nm, parseTy toks with
    | some nm, some (t, rest) => (parseFields k rest).map fun (fs, rest) => ((nm, t) :: fs, rest)
    | _, _ => none
  | _, _ => none
end

/-- the driver's cache key for a list of argument types: their wire tokens (injective encoding) -/
abbrev DTy := String

structure Entry where
  inst : Inst DOp DTy
  name : String
  uses : List Nat

/-- `<optok> <k> <types…> <m> <uses…>` -/
def parseEntry (toks : List String) : Option (Entry × List String) :=
  match toks with
  | op :: k :: rest =>
    match parseDOp op, k.toNat? with
    | some op, some k =>
      match parseTys k rest with
      | some (tys, rest') =>
        let consumed := rest.take (rest.length - rest'.length)
        match rest' with
        | m :: rest'' =>
          match m.toNat? with
          | some m =>
            match (rest''.take m).mapM (·.toNat?) with
            | some us =>
              if us.length = m then
                some (⟨⟨op, consumed⟩, String.ofList (instNameChars op.nameChars (showTys tys)), us⟩,
                      rest''.drop m)
              else none
            | none => none
          | none => none
        | [] => none
      | none => none
    | _, _ => none
  | _ => none

partial def parseEntries : Nat → List String → Option (List Entry × List String)
  | 0, rest => some ([], rest)
  | n + 1, toks =>
    match parseEntry toks with
    | some (e, rest) => (parseEntries n rest).map fun (es, rest) => (e :: es, rest)
    | none => none

def graphOf (es : List Entry) (uses : List Nat) : Option (Graph DOp DTy Unit) :=
  (uses.mapM fun u => es[u]?.map fun e => (Node.custom e.inst [] : Node DOp DTy Unit)).map
    fun ns => ⟨ns, 0⟩

def libOf (es : List Entry) (i : Inst DOp DTy) : Except String (Ctx DOp DTy Unit) :=
  match es.find? fun e => e.inst = i with
  | some e =>
    match graphOf es e.uses with
    | some g => .ok ⟨[g], 0⟩
    | none => .error "bad use"
  | none => .error "unknown instantiation"

def nameOfTable (es : List Entry) (i : Inst DOp DTy) : String :=
  match es.find? fun e => e.inst = i with
  | some e => e.name
  | none => ""

def sep : String := " ;; "

/-- run the model's pass on the abstract context; answer: sorted graph names of the result,
    then the name of the graph each root custom node calls -/
def runPass (es : List Entry) (roots : List Nat) : String :=
  match graphOf es roots with
  | none => "BAD-OP"
  | some g =>
    match instantiate () (nameOfTable es) (libOf es) 64 ⟨[g], 0⟩ with
    | .error _ => "ERR"
    | .ok (r, _) =>
      let names := (r.graphs.filterMap (·.name)).mergeSort (fun a b => decide (a ≤ b))
      let callees := match r.graphs[r.main]? with
        | some mg => mg.nodes.map fun n =>
          match n.gdeps with
          | [gi] => match r.graphs[gi]? with
            | some cg => cg.name.getD "?"
            | none => "?"
          | _ => "?"
        | none => []
      sep.intercalate names ++ " ## " ++ sep.intercalate callees

/-- requests:
  `name <optok>`                      → `get_name()` of the operation
  `ty <type tokens>`                  → `Display` of the type
  `pass <n> <entry>×n <r> <root>×r`   → see `runPass` -/
def handle : List String → String
  | ["name", op] =>
    match parseOp op with
    | some op => opName op
    | none => "BAD-OP"
  | "ty" :: toks =>
    match parseTy toks with
    | some (t, []) => String.ofList (showTy t)
    | _ => "BAD-OP"
  | "pass" :: n :: toks =>
    match n.toNat? with
    | some n =>
      match parseEntries n toks with
      | some (es, r :: roots) =>
        match r.toNat?, roots.mapM (·.toNat?) with
        | some r, some roots => if roots.length = r then runPass es roots else "BAD-OP"
        | _, _ => "BAD-OP"
      | _ => "BAD-OP"
    | none => "BAD-OP"
  | _ => "BAD-OP"

end CCV.Drv.C08
