import CCV.Drv.Util
import CCV.Model.Join
namespace CCV.Drv.C19
open CCV CCV.Drv CCV.Join

def parseJT? : String → Option JoinType
  | "inner" => some .inner
  | "left" => some .left
  | "union" => some .union
  | "full" => some .full
  | _ => none

def parseBit? : String → Option Bool
  | "0" => some false
  | "1" => some true
  | _ => none

/-- a cell `m:d,d,d` -/
def parseCell? (s : String) : Option Cell :=
  match s.splitOn ":" with
  | [m, d] => do
    let m ← parseBit? m
    let d ← parseIntList? d
    pure ⟨m, d⟩
  | _ => none

/-- a row `n|cell|cell|…` -/
def parseRow? (s : String) : Option Row :=
  match s.splitOn "|" with
  | n :: cells => do
    let n ← parseBit? n
    let cs ← cells.mapM parseCell?
    pure ⟨n, cs⟩
  | [] => none

/-- a table: rows separated by `;` -/
def parseTable? (s : String) : Option Table :=
  if s == "_" then some [] else (s.splitOn ";").mapM parseRow?

def showCell (masked : Bool) (c : Cell) : String :=
  (if masked then showBool c.mask ++ ":" else "") ++ showList c.data

def showRow (masked : Bool) (r : Row) : String :=
  "|".intercalate (showBool r.null :: r.cells.map (showCell masked))

def showTable (masked : Bool) (t : Table) : String :=
  if t.isEmpty then "_" else ";".intercalate (t.map (showRow masked))

/-- request: `<inner|left|union|full> <masked 0/1> <k0> <k1> <w0> <w1> <table0> <table1>` →
    the result table of the implementation-layer model (`Join.impl`), masks printed iff masked.
    `spec …` the same through the specification layer. -/
def handle : List String → String
  | [jt, masked, k0, k1, w0, w1, a, b] =>
    match parseJT? jt, parseBit? masked, parseNatList? k0, parseNatList? k1, parseNatList? w0, parseNatList? w1,
        parseTable? a, parseTable? b with
    | some jt, some masked, some k0, some k1, some w0, some w1, some a, some b =>
      showTable masked (impl jt ⟨k0, k1, w0, w1⟩ a b)
    | _, _, _, _, _, _, _, _ => "BAD-OP"
  | ["spec", jt, masked, k0, k1, w0, w1, a, b] =>
    match parseJT? jt, parseBit? masked, parseNatList? k0, parseNatList? k1, parseNatList? w0, parseNatList? w1,
        parseTable? a, parseTable? b with
    | some jt, some masked, some k0, some k1, some w0, some w1, some a, some b =>
      showTable masked (spec jt ⟨k0, k1, w0, w1⟩ a b)
    | _, _, _, _, _, _, _, _ => "BAD-OP"
  | _ => "BAD-OP"

end CCV.Drv.C19
