import CCV.Drv.Util
import CCV.Model.Random
namespace CCV.Drv.C15
open CCV CCV.Drv CCV.Random

/-- block stream of a key-stream prefix given as bytes (`blocks i` = bytes 16i .. 16i+15) -/
def blocksOf (ks : Array Nat) : Nat → List Nat :=
  fun i => (ks.extract (16 * i) (16 * i + 16)).toList

/-- types in prefix notation, tokens separated by `,`:
    `A,<scalar bits>,<rank>,<dims…>` | `T,<k>,<k types>` | `V,<n>,<type>` -/
def parseTy : Nat → List String → Option (RTy × List String)
  | 0, _ => none
  | f + 1, toks =>
    match toks with
    | "A" :: sb :: rank :: rest => do
      let sb ← parseNat? sb
      let rank ← parseNat? rank
      if rest.length < rank then none else
      let dims ← (rest.take rank).mapM parseNat?
      some (.arr sb dims, rest.drop rank)
    | "T" :: k :: rest => do
      let k ← parseNat? k
      let rec go : Nat → List String → Option (List RTy × List String)
        | 0, r => some ([], r)
        | k + 1, r => do
          let (t, r') ← parseTy f r
          let (ts, r'') ← go k r'
          some (t :: ts, r'')
      let (ts, r) ← go k rest
      some (.tup ts, r)
    | "V" :: n :: rest => do
      let n ← parseNat? n
      let (t, r) ← parseTy f rest
      some (.vec n t, r)
    | _ => none

def parseType? (s : String) : Option RTy :=
  let toks := s.splitOn ","
  match parseTy (toks.length + 1) toks with
  | some (t, []) => some t
  | _ => none

partial def showVal : RVal → String
  | .bytes bs => "B" ++ showList bs
  | .vec vs => "(" ++ ";".intercalate (vs.map showVal) ++ ")"

def showErr : String → String
  | "div0" => "PANIC"
  | "fuel" => "FUEL"
  | "diverge" => "DIVERGE"
  | _ => "ERR"

/-- number of draws granted to a rejection-sampling loop -/
def FUEL : Nat := 200

def parseOptNat? (s : String) : Option (Option Nat) :=
  if s == "N" then some none else (parseNat? s).map some

def parsePrngOp? (s : String) : Option PrngOp :=
  match s.splitOn ":" with
  | ["V", t] => (parseType? t).map .value
  | ["P", n] => (parseNat? n).map .perm
  | ["R", m] => (parseOptNat? m).map .inRange
  | ["B", n] => (parseNat? n).map .bytes
  | _ => none

def showPrngOut : PrngOut → String
  | .value v => showVal v
  | .list xs => showList xs
  | .num x => toString x

def parsePrfOp? (s : String) : Option PrfOp :=
  match s.splitOn ":" with
  | ["V", k, iv, t] => do some (.value (← parseNat? k) (← parseNat? iv) (← parseType? t))
  | ["P", k, iv, n] => do some (.perm (← parseNat? k) (← parseNat? iv) (← parseNat? n))
  | _ => none

def parseStream? (s : String) : Option ((Nat × Nat) × Array Nat) :=
  match s.splitOn ":" with
  | [k, iv, bs] => do some ((← parseNat? k, ← parseNat? iv), (← parseNatList? bs).toArray)
  | _ => none

def showPrfOut : PrfOut → String
  | .value (.ok v) => showVal v
  | .perm (.ok p) => showList p
  | .value (.error e) => showErr e
  | .perm (.error e) => showErr e

/-- requests (key streams are comma-separated bytes, computed by the harness with the `aes` crate):
  `reads <initial buffer size> <read sizes> <ks>`  → bytes of each `generate_random_bytes`, joined by `|`
  `u32 <initial buffer size> <moduli> <ks>`        → `generate_u32_in_range` draws of one session
  `value <type> <ks>`                              → `Prf::output_value`
  `perm <n> <ks>`                                  → `Prf::output_permutation`
  `prng <ops joined by ;> <ks>`                    → one seeded PRNG answering the operations
  `nodes <streams key:iv:ks joined by ;> <ops joined by ;>` → PRF / PermutationFromPRF nodes of one evaluator -/
def handle : List String → String
  | ["reads", ibs, reads, ks] =>
    match parseNat? ibs, parseNatList? reads, parseNatList? ks with
    | some ibs, some reads, some ks =>
      match readMany (blocksOf ks.toArray) (Session.new ibs) reads with
      | .ok (_, out) => "|".intercalate (out.map showList)
      | .error e => showErr e
    | _, _, _ => "BAD-OP"
  | ["u32", ibs, ms, ks] =>
    match parseNat? ibs, parseNatList? ms, parseNatList? ks with
    | some ibs, some ms, some ks =>
      match u32Many (blocksOf ks.toArray) FUEL (Session.new ibs) ms with
      | .ok (_, out) => showList out
      | .error e => showErr e
    | _, _, _ => "BAD-OP"
  | ["value", t, ks] =>
    match parseType? t, parseNatList? ks with
    | some t, some ks =>
      match prfValue (blocksOf ks.toArray) INITIAL_BUFFER_SIZE t with
      | .ok v => showVal v
      | .error e => showErr e
    | _, _ => "BAD-OP"
  | ["perm", n, ks] =>
    match parseNat? n, parseNatList? ks with
    | some n, some ks =>
      match outputPermutation (blocksOf ks.toArray) FUEL n with
      | .ok a => showList a
      | .error e => showErr e
    | _, _ => "BAD-OP"
  | ["prng", ops, ks] =>
    match (ops.splitOn ";").mapM parsePrngOp?, parseNatList? ks with
    | some ops, some ks =>
      match prngRun (blocksOf ks.toArray) FUEL (Session.new BUFFER_SIZE) ops with
      | .ok (_, out) => ";".intercalate (out.map showPrngOut)
      | .error e => showErr e
    | _, _ => "BAD-OP"
  | ["nodes", streams, ops] =>
    match (streams.splitOn ";").mapM parseStream?, (ops.splitOn ";").mapM parsePrfOp? with
    | some streams, some ops =>
      let mk : Nat → PrfObj := fun key iv =>
        match streams.find? (fun e => e.1 == (key, iv)) with
        | some (_, ks) => blocksOf ks
        | none => fun _ => []
      ";".intercalate ((prfNodes mk FUEL [] ops).map showPrfOut)
    | _, _ => "BAD-OP"
  | _ => "BAD-OP"

end CCV.Drv.C15
