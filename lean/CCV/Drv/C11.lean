import CCV.Drv.Util
import CCV.Model.Context
namespace CCV.Drv.C11
open CCV CCV.Drv CCV.Context

/-!
  requests:
  `hist <call>;<call>;…`  → for every call `<o|E><payload>/<digest of the snapshot after it>`, space separated
  `snap <call>;<call>;…`  → the canonical snapshot text after the whole history (debugging aid)

  call encodings (fields separated by `:`, lists by `,`, empty list `_`, handles `ctx.g.n` / `ctx.g`):
  `cg` | `an:<g>:<op>:<deps>:<gdeps>:<tv>:<sz|->` | `at:<g>:<op>:<deps>:<gdeps>:<tyok>:<sz|->`
  | `sgn:<gref>:<name>` | `snn:<nref>:<name>` | `ana:<nref>:<a>` | `aga:<gref>:<a>` | `so:<g>:<nref>`
  | `fg:<g>` | `sm:<gref>` | `fc` | `ggn:<gref>` | `rg:<name>` | `gnn:<nref>` | `rn:<gref>:<name>`
  | `gnb:<g>:<id>` | `ggb:<id>` | `go:<g>` | `gm` | `gna:<nref>` | `gga:<gref>`
-/

def parseNRef? (s : String) : Option NRef :=
  match s.splitOn "." with
  | [c, g, n] => do pure ⟨← parseNat? c, ← parseNat? g, ← parseNat? n⟩
  | _ => none

def parseGRef? (s : String) : Option GRef :=
  match s.splitOn "." with
  | [c, g] => do pure ⟨← parseNat? c, ← parseNat? g⟩
  | _ => none

def parseList? (f : String → Option α) (s : String) : Option (List α) :=
  if s == "_" then some [] else (s.splitOn ",").mapM f

def parseBool? (s : String) : Option Bool :=
  if s == "1" then some true else if s == "0" then some false else none

def parseOptNat? (s : String) : Option (Option Nat) :=
  if s == "-" then some none else (parseNat? s).map some

def parseCall? (s : String) : Option Call :=
  match s.splitOn ":" with
  | ["cg"] => some .createGraph
  | ["an", g, op, deps, gdeps, tv, sz] => do
    pure (.addNode (← parseNat? g) (← parseNat? op) (← parseList? parseNRef? deps)
      (← parseList? parseGRef? gdeps) (← parseBool? tv) (← parseOptNat? sz))
  | ["at", g, op, deps, gdeps, tv, sz] => do
    pure (.addNodeWithType (← parseNat? g) (← parseNat? op) (← parseList? parseNRef? deps)
      (← parseList? parseGRef? gdeps) (← parseBool? tv) (← parseOptNat? sz))
  | ["sgn", r, nm] => do pure (.setGraphName (← parseGRef? r) (← parseNat? nm))
  | ["snn", r, nm] => do pure (.setNodeName (← parseNRef? r) (← parseNat? nm))
  | ["ana", r, a] => do pure (.addNodeAnnotation (← parseNRef? r) (← parseNat? a))
  | ["aga", r, a] => do pure (.addGraphAnnotation (← parseGRef? r) (← parseNat? a))
  | ["so", g, r] => do pure (.setOutput (← parseNat? g) (← parseNRef? r))
  | ["fg", g] => do pure (.finalizeGraph (← parseNat? g))
  | ["sm", r] => do pure (.setMain (← parseGRef? r))
  | ["fc"] => some .finalizeContext
  | ["ggn", r] => do pure (.getGraphName (← parseGRef? r))
  | ["rg", nm] => do pure (.retrieveGraph (← parseNat? nm))
  | ["gnn", r] => do pure (.getNodeName (← parseNRef? r))
  | ["rn", r, nm] => do pure (.retrieveNode (← parseGRef? r) (← parseNat? nm))
  | ["gnb", g, id] => do pure (.getNodeById (← parseNat? g) (← parseNat? id))
  | ["ggb", id] => do pure (.getGraphById (← parseNat? id))
  | ["go", g] => do pure (.getOutput (← parseNat? g))
  | ["gm"] => some .getMain
  | ["gna", r] => do pure (.getNodeAnnotations (← parseNRef? r))
  | ["gga", r] => do pure (.getGraphAnnotations (← parseGRef? r))
  | _ => none

def showOpt : Option Nat → String
  | some v => toString v
  | none => "-"

/-- size of the harness's name pool: the snapshot lists `retrieve_*` of every pool name -/
def namePool : Nat := 6

/-- canonical snapshot text of what `observe` exposes (the harness renders the same text from the
    public getters and the serialized context of the real object) -/
def render (o : Obs) : String := Id.run do
  let mut out := s!"F{showBool o.finalized};M{showOpt o.main}"
  let mut gi := 0
  for g in o.graphs do
    out := out ++ s!"|G{g.id}:f{showBool g.finalized}:o{showOpt g.output}:N{showOpt (tget o.gnames gi)}:A{showList ((tget o.gannot gi).getD [])}:["
    let mut ni := 0
    for n in g.nodes do
      out := out ++ s!"{n.id}#{n.op}({showList (n.deps.map (fun d => s!"{d.1}.{d.2}"))})({showList n.gdeps})n{showOpt (tget o.nnames (gi, ni))}a{showList ((tget o.nannot (gi, ni)).getD [])};"
      ni := ni + 1
    out := out ++ "]R"
    for k in List.range namePool do
      out := out ++ showOpt (tget o.nnamesInv (gi, k)) ++ ","
    gi := gi + 1
  out := out ++ "|R"
  for k in List.range namePool do
    out := out ++ showOpt (tget o.gnamesInv k) ++ ","
  out := out ++ s!"|gn={o.gnames.length},nn={o.nnames.length},ga={o.gannot.length},na={o.nannot.length}"
  return out

/-- FNV-1a, 64 bit, over the (ASCII) snapshot text -/
def fnv (s : String) : UInt64 :=
  s.foldl (fun h c => (h ^^^ c.toNat.toUInt64) * 0x100000001b3) 0xcbf29ce484222325

def showResult : Result → String
  | .ok p => "o" ++ (if p.isEmpty then "" else showList p)
  | .err => "E"

def handle : List String → String
  | ["hist", h] =>
    match (h.splitOn ";").mapM parseCall? with
    | none => "BAD-OP"
    | some calls => Id.run do
      let mut s := init
      let mut out : List String := []
      for c in calls do
        let (s', r) := step s c
        s := s'
        out := s!"{showResult r}/{fnv (render (observe s))}" :: out
      return " ".intercalate out.reverse
  | ["snap", h] =>
    match (h.splitOn ";").mapM parseCall? with
    | none => "BAD-OP"
    | some calls => render (observe (run init calls))
  | _ => "BAD-OP"

end CCV.Drv.C11
