import CCV.Drv.Util
import CCV.Model.InlineFresh
namespace CCV.Drv.C07Fresh
open CCV CCV.Drv CCV.InlineFresh

/-- tags: `I` Input, `R` Random, `A`/`S`/`M` Add/Subtract/Multiply, `O<k>` other operation,
    `K<v>` Constant, `X` VectorGet, `G<i>` TupleGet, `T` CreateTuple, `V` CreateVector,
    `C` Call, `L<n>` Iterate over a vector of length n -/
def parseTag? (s : String) : Option Tag :=
  match s.toList with
  | ['I'] => some .input
  | ['R'] => some .random
  | ['A'] => some (.op 0)
  | ['S'] => some (.op 1)
  | ['M'] => some (.op 2)
  | ['X'] => some .vectorGet
  | ['T'] => some .createTuple
  | ['V'] => some .createVector
  | ['C'] => some .call
  | 'O' :: r => (String.ofList r).toNat?.map .op
  | 'K' :: r => (String.ofList r).toNat?.map .const
  | 'G' :: r => (String.ofList r).toNat?.map .tupleGet
  | 'L' :: r => (String.ofList r).toNat?.map .iterate
  | _ => none

def showTag : Tag → String
  | .input => "I"
  | .random => "R"
  | .op 0 => "A"
  | .op 1 => "S"
  | .op 2 => "M"
  | .op k => s!"O{k}"
  | .const v => s!"K{v}"
  | .vectorGet => "X"
  | .tupleGet i => s!"G{i}"
  | .createTuple => "T"
  | .createVector => "V"
  | .call => "C"
  | .iterate n => s!"L{n}"

def parseDeps? (s : String) : Option (List Nat) := (s.splitOn ".").mapM String.toNat?

def parseNode? (s : String) : Option Node :=
  match s.splitOn ":" with
  | [t] => (parseTag? t).map (fun t => ⟨t, []⟩)
  | [t, d] =>
    match parseTag? t, parseDeps? d with
    | some t, some d => some ⟨t, d⟩
    | _, _ => none
  | _ => none

def parseGraph? (s : String) : Option Graph :=
  if s == "_" then some [] else (s.splitOn ";").mapM parseNode?

def showNode (nd : Node) : String :=
  if nd.deps.isEmpty then showTag nd.tag
  else showTag nd.tag ++ ":" ++ ".".intercalate (nd.deps.map toString)

def showGraph (g : Graph) : String :=
  if g.isEmpty then "_" else ";".intercalate (g.map showNode)

/-- request `fresh <S|D> <emptyState 0|1> <main graph> <main output id> <body graph> <body output id>`
    → `<inlined main graph>|<output id>`; a graph is `;`-separated nodes `tag[:d1.d2…]` -/
def handle : List String → String
  | [mode, es, main, mo, body, bo] =>
    let mode? : Option Mode := if mode == "S" then some .simple else if mode == "D" then some .depth else none
    match mode?, parseNat? es, parseGraph? main, parseNat? mo, parseGraph? body, parseNat? bo with
    | some mode, some es, some main, some mo, some body, some bo =>
      let r := inlineOperations mode (es == 1) main mo body bo
      showGraph r.1 ++ "|" ++ toString r.2
    | _, _, _, _, _, _ => "BAD-OP"
  | _ => "BAD-OP"

end CCV.Drv.C07Fresh
