import CCV.Drv.Util
import CCV.Model.Optimizer
namespace CCV.Drv.C06
open CCV.Drv CCV.Optimizer

/-
  Text encoding of the IR (no spaces inside a graph):
    graph   = node ";" node ";" …            (`_` = no nodes)
    node    = op "|" deps "|" anns "|" name "|" ty
    op      = in.T | c.V.n | c.V.NUM | r.TAG | p.TAG | nop | ct | cnt(.NAME)* | cv.TAG | tg.J | ntg.NAME
            | vg | zip | a2v | get.I | gsl.I | a2b | b2a.ST | o.TAG.(0|1)
    deps, anns = comma list of naturals or `_` ;  name = `n` or a natural
    ty      = "v"* ( "a." ND "." ST | "o" )
  mapping   = comma list of naturals / `n`
-/

def parseTy (s : String) : Option Ty :=
  let cs := s.toList
  let nv := (cs.takeWhile (· == 'v')).length
  let rest := String.ofList (cs.drop nv)
  let base : Option Ty :=
    match rest.splitOn "." with
    | ["o"] => some .other
    | ["a", nd, st] => do some (.arr (← nd.toNat?) (← st.toNat?))
    | _ => none
  base.map fun b => (List.range nv).foldl (fun t _ => .vec t) b

def showTy : Ty → String
  | .other => "o"
  | .arr nd st => s!"a.{nd}.{st}"
  | .vec e => "v" ++ showTy e

def parseOp (s : String) : Option Op :=
  match s.splitOn "." with
  | ["in", t] => t.toNat?.map .input
  | ["c", v, "n"] => v.toNat?.map (.constant · none)
  | ["c", v, c] => do some (.constant (← v.toNat?) (some (← c.toNat?)))
  | ["r", t] => t.toNat?.map .random
  | ["p", t] => t.toNat?.map .prf
  | ["nop"] => some .nop
  | ["ct"] => some .createTuple
  | "cnt" :: names => (names.mapM String.toNat?).map .createNamedTuple
  | ["cv", t] => t.toNat?.map .createVector
  | ["tg", j] => j.toNat?.map .tupleGet
  | ["ntg", j] => j.toNat?.map .namedTupleGet
  | ["vg"] => some .vectorGet
  | ["zip"] => some .zip
  | ["a2v"] => some .arrayToVector
  | ["get", i] => i.toNat?.map .get
  | ["gsl", i] => i.toNat?.map .getSlice
  | ["a2b"] => some .a2b
  | ["b2a", st] => st.toNat?.map .b2a
  | ["o", t, f] => do some (.other (← t.toNat?) ((← f.toNat?) != 0))
  | _ => none

def showOp : Op → String
  | .input t => s!"in.{t}"
  | .constant v none => s!"c.{v}.n"
  | .constant v (some c) => s!"c.{v}.{c}"
  | .random t => s!"r.{t}"
  | .prf t => s!"p.{t}"
  | .nop => "nop"
  | .createTuple => "ct"
  | .createNamedTuple names => ".".intercalate ("cnt" :: names.map toString)
  | .createVector t => s!"cv.{t}"
  | .tupleGet j => s!"tg.{j}"
  | .namedTupleGet j => s!"ntg.{j}"
  | .vectorGet => "vg"
  | .zip => "zip"
  | .arrayToVector => "a2v"
  | .get i => s!"get.{i}"
  | .getSlice i => s!"gsl.{i}"
  | .a2b => "a2b"
  | .b2a st => s!"b2a.{st}"
  | .other t f => s!"o.{t}.{if f then 1 else 0}"

def parseNode (s : String) : Option Node :=
  match s.splitOn "|" with
  | [op, deps, anns, name, ty] => do
    let name ← if name == "n" then some none else name.toNat?.map some
    some { op := ← parseOp op, deps := ← parseNatList? deps, ann := ← parseNatList? anns,
           name := name, ty := ← parseTy ty }
  | _ => none

def showNode (n : Node) : String :=
  let name := match n.name with | none => "n" | some k => toString k
  "|".intercalate [showOp n.op, showList n.deps, showList n.ann, name, showTy n.ty]

def parseNodes (s : String) : Option (List Node) :=
  if s == "_" then some [] else (s.splitOn ";").mapM parseNode

def showNodes (ns : List Node) : String :=
  if ns.isEmpty then "_" else ";".intercalate (ns.map showNode)

def showMapping (m : Mapping) : String :=
  if m.isEmpty then "_" else ",".intercalate (m.map fun | none => "n" | some k => toString k)

def parseMapping (s : String) : Option Mapping :=
  if s == "_" then some [] else
    (s.splitOn ",").mapM fun t => if t == "n" then some none else t.toNat?.map some

/-- oracle table `i:vid:num,…` (num = `n` or a natural) -/
def parseOracle (s : String) : Option (List (Nat × (Nat × Option Nat))) :=
  if s == "_" then some [] else
    (s.splitOn ",").mapM fun e =>
      match e.splitOn ":" with
      | [i, v, c] => do
        let c ← if c == "n" then some none else c.toNat?.map some
        some (← i.toNat?, (← v.toNat?, c))
      | _ => none

def oracleOf (tbl : List (Nat × (Nat × Option Nat))) (i : Nat) : Nat × Option Nat :=
  match tbl.find? (·.1 == i) with
  | some e => e.2
  | none => (0, none)

def showResult (r : Graph × Mapping) : String :=
  s!"{r.1.out} {showNodes r.1.nodes} {showMapping r.2}"

/-- requests:
  `pass constants <out> <graph> <oracle>` · `pass meta|duplicates|dangling <out> <graph>` ·
  `pass optimize <out> <graph> <oracle>`  → `<out'> <graph'> <mapping>` or `ERR`
  `chain <m1> <m2> …` → joined mapping -/
def handle : List String → String
  | ["pass", name, out, g, orc] =>
    match out.toNat?, parseNodes g, parseOracle orc with
    | some out, some ns, some tbl =>
      let g : Graph := ⟨ns, out⟩
      match name with
      | "constants" => if constantsOk g then showResult (constants (oracleOf tbl) g) else "ERR"
      | "optimize" =>
        match optimize (oracleOf tbl) g with
        | some r => showResult r
        | none => "ERR"
      | _ => "BAD-OP"
    | _, _, _ => "BAD-OP"
  | ["pass", name, out, g] =>
    match out.toNat?, parseNodes g with
    | some out, some ns =>
      let g : Graph := ⟨ns, out⟩
      match name with
      | "meta" =>
        match metaOps g with
        | some r => showResult r
        | none => "ERR"
      | "duplicates" => showResult (duplicates g)
      | "dangling" => showResult (dangling g)
      | _ => "BAD-OP"
    | _, _ => "BAD-OP"
  | "chain" :: ms =>
    match ms.mapM parseMapping with
    | some ms => showMapping (chain ms)
    | none => "BAD-OP"
  | _ => "BAD-OP"

end CCV.Drv.C06
