import CCV.Drv.Util
import CCV.Model.Compare
import CCV.Model.CompareArr
namespace CCV.Drv.C16
open CCV CCV.Drv CCV.Compare CCV.CompareArr

def parseOp? : String → Option Op
  | "eq" => some .eq
  | "ne" => some .ne
  | "lt" => some .lt
  | "gt" => some .gt
  | "le" => some .le
  | "ge" => some .ge
  | _ => none

def showOptBool : Option Bool → String
  | some b => showBool b
  | none => "ERR"

def showOptBits : Option (List Bool) → String
  | some l => toString (ofBits l)
  | none => "ERR"

/-- `Multiply` nodes on top of the joins, per operation -/
def extraMults : String → Option Nat
  | "eq" => some 0
  | "ne" => some 0
  | "lt" => some 1
  | "gt" => some 1
  | "le" => some 1
  | "ge" => some 1
  | "min" => some 2
  | "max" => some 2
  | _ => none

/-- a bit array on the wire: one character `0`/`1` per stored bit, row-major -/
def parseBits? (s : String) : Option (List Nat) :=
  s.toList.mapM fun c => if c == '0' then some 0 else if c == '1' then some 1 else none

def showBits (l : List Nat) : String := String.ofList (l.map fun x => if x == 0 then '0' else '1')

def showArr : Except String (List Nat × List Nat) → String
  | .ok (s, xs) => showList s ++ " " ++ showBits xs
  | .error _ => "ERR"

/-- the array-level model of one of the 8 operations -/
def arrOp (op : String) (signed : Bool) (sa xs sb ys : List Nat) : Option (Except String (List Nat × List Nat)) :=
  match op with
  | "min" => some (minArr signed sa xs sb ys)
  | "max" => some (maxArr signed sa xs sb ys)
  | _ => (parseOp? op).map fun o => cmpArr o signed sa xs sb ys

/-- requests (operands are naturals `< 2^w`, the bit strings are their `w` low bits, LSB first):
  `cmp <eq|ne|lt|gt|le|ge> <signed 0/1> <w> <a> <b>` → result bit of the custom operation, `ERR` if rejected
  `min <signed> <w> <a> <b>` / `max …`               → the natural encoded by the result bit string
  `mults <op> <w>`                                   → number of `Multiply` nodes of the instantiated graph
  `arr <op|min|max> <signed> <shape a> <bits a> <shape b> <bits b>` → whole arrays (shapes include the
       bit axis, bits row-major `0`/`1` characters): `<result shape> <result bits>`, `ERR` if rejected -/
def handle : List String → String
  | ["cmp", op, s, w, a, b] =>
    match parseOp? op, parseNat? s, parseNat? w, parseNat? a, parseNat? b with
    | some op, some s, some w, some a, some b => showOptBool (compare op (s == 1) (toBits w a) (toBits w b))
    | _, _, _, _, _ => "BAD-OP"
  | ["min", s, w, a, b] =>
    match parseNat? s, parseNat? w, parseNat? a, parseNat? b with
    | some s, some w, some a, some b => showOptBits (minBits (s == 1) (toBits w a) (toBits w b))
    | _, _, _, _ => "BAD-OP"
  | ["max", s, w, a, b] =>
    match parseNat? s, parseNat? w, parseNat? a, parseNat? b with
    | some s, some w, some a, some b => showOptBits (maxBits (s == 1) (toBits w a) (toBits w b))
    | _, _, _, _ => "BAD-OP"
  | ["arr", op, s, sa, xs, sb, ys] =>
    match parseNat? s, parseNatList? sa, parseBits? xs, parseNatList? sb, parseBits? ys with
    | some s, some sa, some xs, some sb, some ys =>
      match arrOp op (s == 1) sa xs sb ys with
      | some r => showArr r
      | none => "BAD-OP"
    | _, _, _, _, _ => "BAD-OP"
  | ["mults", op, w] =>
    match extraMults op, parseNat? w with
    | some e, some w => toString (multNodes e w)
    | _, _ => "BAD-OP"
  | _ => "BAD-OP"

end CCV.Drv.C16
