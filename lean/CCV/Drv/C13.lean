import CCV.Drv.Util
import CCV.Model.Bytes
namespace CCV.Drv.C13
open CCV CCV.Drv CCV.Bytes

/-- requests:
  `tobytes <st> <ints>`            → bytes of `Value::from_flattened_array`
  `tobytes64 <st> <native bits> <native signed 0/1> <ints>`         → bytes of `Value::from_flattened_array_u64`
  `frombytes128 <st> <bytes>`      → `vec_u128_from_bytes`
  `frombytes64 <st> <bytes>`       → `vec_u64_from_bytes`
  `flat128 <st> <shape> <bytes>`   → `Value::to_flattened_array_u128`
  `flat64 <st> <shape> <bytes>`    → `Value::to_flattened_array_u64`
  `check <st> <shape> <len>`       → `check_type` of a byte value of that length -/
def handle : List String → String
  | ["tobytes", st, xs] =>
    match ST.parse st, parseIntList? xs with
    | some st, some xs => showExcept (vecToBytes st xs)
    | _, _ => "BAD-OP"
  | ["tobytes64", st, nb, ns, xs] =>
    match ST.parse st, parseNat? nb, parseNat? ns, parseIntList? xs with
    | some st, some nb, some ns, some xs => showExcept (vecU64ToBytes nb (ns == 1) st xs)
    | _, _, _, _ => "BAD-OP"
  | ["frombytes128", st, bs] =>
    match ST.parse st, parseNatList? bs with
    | some st, some bs => showExcept (vecU128FromBytes st bs)
    | _, _ => "BAD-OP"
  | ["frombytes64", st, bs] =>
    match ST.parse st, parseNatList? bs with
    | some st, some bs => showExcept (vecU64FromBytes st bs)
    | _, _ => "BAD-OP"
  | ["flat128", st, sh, bs] =>
    match ST.parse st, parseNatList? sh, parseNatList? bs with
    | some st, some sh, some bs => showExcept (toFlatU128 bs sh st)
    | _, _, _ => "BAD-OP"
  | ["flat64", st, sh, bs] =>
    match ST.parse st, parseNatList? sh, parseNatList? bs with
    | some st, some sh, some bs => showExcept (toFlatU64 bs sh st)
    | _, _, _ => "BAD-OP"
  | ["check", st, sh, len] =>
    match ST.parse st, parseNatList? sh, parseNat? len with
    | some st, some sh, some len => showBool (checkArrayType len sh st)
    | _, _, _ => "BAD-OP"
  | _ => "BAD-OP"

end CCV.Drv.C13
