import CCV.Drv.Util
import CCV.Model.Bytes
import CCV.Model.TypedValue
namespace CCV.Drv.C13
open CCV CCV.Drv CCV.Bytes CCV.TV

/-! token encodings (prefix notation, one token per node):
  type : `s:<st>` | `a:<st>:<dims>` | `v:<n>` T | `t:<k>` T… | `n:<k>` (`N<name>` T)…
  value: `b:<bytes>` | `l:<k>` V…
  json : `#<int>` | `"<string, ' ' as '~'>` | `T` | `F` | `Z` | `[<k>` J… | `{<k>` (`"<key>` J)…  -/

def tail1 (s : String) : String := String.ofList (s.toList.drop 1)

def parseTy : Nat → List String → Option (Ty × List String)
  | 0, _ => none
  | fuel + 1, tok :: rest =>
    match tok.splitOn ":" with
    | ["s", st] => (ST.parse st).map (fun st => (.scalar st, rest))
    | ["a", st, dims] =>
      match ST.parse st, parseNatList? dims with
      | some st, some d => some (.array d st, rest)
      | _, _ => none
    | ["v", n] =>
      match parseNat? n, parseTy fuel rest with
      | some n, some (t, rest) => some (.vector n t, rest)
      | _, _ => none
    | ["t", k] => (parseNat? k).bind (fun k => (many fuel k rest).map (fun (ts, r) => (.tuple ts, r)))
    | ["n", k] => (parseNat? k).bind (fun k => (manyN fuel k rest).map (fun (fs, r) => (.named fs, r)))
    | _ => none
  | _, [] => none
where
  many (fuel : Nat) : Nat → List String → Option (List Ty × List String)
    | 0, rest => some ([], rest)
    | k + 1, rest =>
      match parseTy fuel rest with
      | some (t, rest) => (many fuel k rest).map (fun (ts, r) => (t :: ts, r))
      | none => none
  manyN (fuel : Nat) : Nat → List String → Option (List (String × Ty) × List String)
    | 0, rest => some ([], rest)
    | k + 1, name :: rest =>
      match parseTy fuel rest with
      | some (t, rest) => (manyN fuel k rest).map (fun (fs, r) => ((tail1 name, t) :: fs, r))
      | none => none
    | _, [] => none

def parseVal : Nat → List String → Option (Val × List String)
  | 0, _ => none
  | fuel + 1, tok :: rest =>
    match tok.splitOn ":" with
    | ["b", bs] => (parseNatList? bs).map (fun bs => (.bytes bs, rest))
    | ["l", k] => (parseNat? k).bind (fun k => (many fuel k rest).map (fun (vs, r) => (.vec vs, r)))
    | _ => none
  | _, [] => none
where
  many (fuel : Nat) : Nat → List String → Option (List Val × List String)
    | 0, rest => some ([], rest)
    | k + 1, rest =>
      match parseVal fuel rest with
      | some (v, rest) => (many fuel k rest).map (fun (vs, r) => (v :: vs, r))
      | none => none

def unStr (tok : String) : String := (tail1 tok).replace "~" " "

def parseJ : Nat → List String → Option (J × List String)
  | 0, _ => none
  | fuel + 1, tok :: rest =>
    match tok.toList.head? with
    | some '#' => (parseInt? (tail1 tok)).map (fun n => (.num n, rest))
    | some '"' => some (.str (unStr tok), rest)
    | some 'T' => some (.bool true, rest)
    | some 'F' => some (.bool false, rest)
    | some 'Z' => some (.null, rest)
    | some '[' => (parseNat? (tail1 tok)).bind (fun k => (many fuel k rest).map (fun (xs, r) => (.arr xs, r)))
    | some '{' => (parseNat? (tail1 tok)).bind (fun k => (manyF fuel k rest).map (fun (xs, r) => (.obj xs, r)))
    | _ => none
  | _, [] => none
where
  many (fuel : Nat) : Nat → List String → Option (List J × List String)
    | 0, rest => some ([], rest)
    | k + 1, rest =>
      match parseJ fuel rest with
      | some (v, rest) => (many fuel k rest).map (fun (vs, r) => (v :: vs, r))
      | none => none
  manyF (fuel : Nat) : Nat → List String → Option (List (String × J) × List String)
    | 0, rest => some ([], rest)
    | k + 1, key :: rest =>
      match parseJ fuel rest with
      | some (v, rest) => (manyF fuel k rest).map (fun (vs, r) => ((unStr key, v) :: vs, r))
      | none => none
    | _, [] => none

partial def showTy : Ty → String
  | .scalar st => s!"s:{st.name}"
  | .array sh st => s!"a:{st.name}:{showList sh}"
  | .vector n t => s!"v:{n} {showTy t}"
  | .tuple ts => " ".intercalate (s!"t:{ts.length}" :: ts.map showTy)
  | .named fs => " ".intercalate (s!"n:{fs.length}" :: fs.map (fun (n, t) => s!"N{n} {showTy t}"))

partial def showVal : Val → String
  | .bytes bs => s!"b:{showList bs}"
  | .vec vs => " ".intercalate (s!"l:{vs.length}" :: vs.map showVal)

/-- compact JSON text exactly as `serde_json::to_string` prints it (strings are never escaped:
    the harness only uses names without special characters) -/
partial def render : J → String
  | .num n => toString n
  | .str s => "\"" ++ s ++ "\""
  | .bool b => if b then "true" else "false"
  | .null => "null"
  | .arr xs => "[" ++ ",".intercalate (xs.map render) ++ "]"
  | .obj kvs => "{" ++ ",".intercalate (kvs.map (fun (k, v) => "\"" ++ k ++ "\":" ++ render v)) ++ "}"

def parseTyVal (toks : List String) : Option (Ty × Val × List String) :=
  match parseTy toks.length toks with
  | some (t, rest) =>
    match parseVal (rest.length + 1) rest with
    | some (v, rest) => some (t, v, rest)
    | none => none
  | none => none

/-- container requests:
  `checktv <type> <value>`        → `Value::check_type`  (1 / 0 / ERR)
  `zero <type>`                   → `Value::zero_of_type`
  `tojson <type> <value>`         → `serde_json::to_string(&TypedValue)` (text) / ERR
  `ofjson <json tokens>`          → `serde_json::from_str::<TypedValue>`: `<type> <value>` / ERR
  `iseq <type> <value> <value>`   → `TypedValue::is_equal`
  `scalar <st> <nb> <ns> <bytes>` → `Value::to_<native>(st)` -/
def handleTV : List String → Option String
  | "checktv" :: toks =>
    match parseTyVal toks with
    | some (t, v, []) =>
      match checkType v t with
      | .ok b => some (showBool b)
      | .error _ => some "ERR"
    | _ => none
  | "zero" :: toks =>
    match parseTy toks.length toks with
    | some (t, []) => some (showVal (zeroOf t))
    | _ => none
  | "tojson" :: toks =>
    match parseTyVal toks with
    | some (t, v, []) =>
      match toJ t v with
      | some j => some (render j)
      | none => some "ERR"
    | _ => none
  | "ofjson" :: toks =>
    match parseJ toks.length toks with
    | some (j, []) =>
      match ofJTop j with
      | some (t, v) => some (showTy t ++ " " ++ showVal v)
      | none => some "ERR"
    | _ => none
  | "iseq" :: toks =>
    match parseTyVal toks with
    | some (t, v, rest) =>
      match parseVal (rest.length + 1) rest with
      | some (w, []) => some (showBool (isEqual t v w))
      | _ => none
    | _ => none
  | ["scalar", st, nb, ns, bs] =>
    match ST.parse st, parseNat? nb, parseNat? ns, parseNatList? bs with
    | some st, some nb, some ns, some bs =>
      match toU128 (.bytes bs) st with
      | .ok r => some (toString (castNative nb (ns == 1) r))
      | .error _ => some "ERR"
    | _, _, _, _ => none
  | _ => none

/-- requests:
  `tobytes <st> <ints>`            → bytes of `Value::from_flattened_array`
  `tobytes64 <st> <native bits> <native signed 0/1> <ints>`         → bytes of `Value::from_flattened_array_u64`
  `frombytes128 <st> <bytes>`      → `vec_u128_from_bytes`
  `frombytes64 <st> <bytes>`       → `vec_u64_from_bytes`
  `flat128 <st> <shape> <bytes>`   → `Value::to_flattened_array_u128`
  `flat64 <st> <shape> <bytes>`    → `Value::to_flattened_array_u64`
  `check <st> <shape> <len>`       → `check_type` of a byte value of that length -/
def handle : List String → String
  | ["tobytes", st, xs] =>
    match ST.parse st, parseIntList? xs with
    | some st, some xs => showExcept (vecToBytes st xs)
    | _, _ => "BAD-OP"
  | ["tobytes64", st, nb, ns, xs] =>
    match ST.parse st, parseNat? nb, parseNat? ns, parseIntList? xs with
    | some st, some nb, some ns, some xs => showExcept (vecU64ToBytes nb (ns == 1) st xs)
    | _, _, _, _ => "BAD-OP"
  | ["frombytes128", st, bs] =>
    match ST.parse st, parseNatList? bs with
    | some st, some bs => showExcept (vecU128FromBytes st bs)
    | _, _ => "BAD-OP"
  | ["frombytes64", st, bs] =>
    match ST.parse st, parseNatList? bs with
    | some st, some bs => showExcept (vecU64FromBytes st bs)
    | _, _ => "BAD-OP"
  | ["flat128", st, sh, bs] =>
    match ST.parse st, parseNatList? sh, parseNatList? bs with
    | some st, some sh, some bs => showExcept (toFlatU128 bs sh st)
    | _, _, _ => "BAD-OP"
  | ["flat64", st, sh, bs] =>
    match ST.parse st, parseNatList? sh, parseNatList? bs with
    | some st, some sh, some bs => showExcept (toFlatU64 bs sh st)
    | _, _, _ => "BAD-OP"
  | ["check", st, sh, len] =>
    match ST.parse st, parseNatList? sh, parseNat? len with
    | some st, some sh, some len => showBool (checkArrayType len sh st)
    | _, _, _ => "BAD-OP"
  | req => (handleTV req).getD "BAD-OP"

end CCV.Drv.C13
