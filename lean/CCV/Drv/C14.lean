import CCV.Drv.Util
import CCV.Model.Sharing
namespace CCV.Drv.C14
open CCV CCV.Drv CCV.Sharing

/-! value syntax: leaf `<st>:<e0,e1,…>` (`<st>:_` when empty), node `(<v>;<v>;…)`, `()` empty;
    `*` is a garbage slot (parsed to / printed from the marker `bit:_`, which no type produces). -/

def marker : Val := .leaf .bit []

def isMarker : Val → Bool
  | .leaf .bit [] => true
  | _ => false

mutual
def showVal : Val → String
  | .leaf st xs => st.name ++ ":" ++ showList xs
  | .node vs => "(" ++ showVals vs ++ ")"
def showVals : List Val → String
  | [] => ""
  | [v] => showVal v
  | v :: w :: vs => showVal v ++ ";" ++ showVals (w :: vs)
end

def showSlot (v : Val) : String := if isMarker v then "*" else showVal v

def showT3 (t : T3) : String := "[" ++ showSlot t.x0 ++ "|" ++ showSlot t.x1 ++ "|" ++ showSlot t.x2 ++ "]"

def parseLeaf (s : String) : Option Val :=
  match s.splitOn ":" with
  | [st, xs] =>
    match ST.parse st, parseNatList? xs with
    | some st, some xs => some (.leaf st xs)
    | _, _ => none
  | _ => none

mutual
def parseVal : Nat → List Char → Option (Val × List Char)
  | 0, _ => none
  | fuel + 1, '(' :: rest => parseItems fuel rest []
  | _ + 1, cs =>
    let tok := cs.takeWhile (fun c => c != ';' && c != ')')
    let rest := cs.dropWhile (fun c => c != ';' && c != ')')
    (parseLeaf (String.ofList tok)).map (fun v => (v, rest))
def parseItems : Nat → List Char → List Val → Option (Val × List Char)
  | 0, _, _ => none
  | _ + 1, ')' :: rest, acc => some (.node acc.reverse, rest)
  | fuel + 1, cs, acc =>
    match parseVal fuel cs with
    | some (v, ';' :: rest) => parseItems fuel rest (v :: acc)
    | some (v, ')' :: rest) => some (.node (v :: acc).reverse, rest)
    | _ => none
end

def parseVal? (s : String) : Option Val :=
  if s == "*" then some marker else
  match parseVal (2 * s.length + 2) s.toList with
  | some (v, []) => some v
  | _ => none

def showOpt : Option Val → String
  | some v => showVal v
  | none => "ERR"

/-- requests:
  `share <v> <s0> <s1>`              → `<s2> <reveal>`: third share of `shard_to_shares` for the randomness
                                        `(s0, s1)` and `secret_share_reveal` of the triple
  `parties <v> <s0> <s1>`            → the three per-party tuples, garbage slots `*`
  `sharevec <st> <xs> <r0> <r1>`     → `share_vector`: `<s2> <p0> <p1> <p2>`
  `reveal <s0> <s1> <s2>`            → `secret_share_reveal` / `ReplicatedShares::reveal`
  `recon <i> <j> <a> <b> <c> <a'> <b'> <c'>` → reconstruction from the tuples of parties i and j
  `unheld <i> <v> <a> <b>`           → the randomness `(r0, r1)` for which party i holds `(a, b)`
  `gsub <a> <b>` / `gadd <a> <b>`    → `generalized_subtract` / `generalized_add` -/
def handle : List String → String
  | ["share", v, s0, s1] =>
    match parseVal? v, parseVal? s0, parseVal? s1 with
    | some v, some s0, some s1 =>
      match share? v s0 s1 with
      | some s => showVal s.x2 ++ " " ++ showOpt (reveal? s)
      | none => "ERR"
    | _, _, _ => "BAD-OP"
  | ["parties", v, s0, s1] =>
    match parseVal? v, parseVal? s0, parseVal? s1 with
    | some v, some s0, some s1 =>
      match share? v s0 s1 with
      | some s => " ".intercalate ((parties s ⟨marker, marker, marker⟩).map showT3)
      | none => "ERR"
    | _, _, _ => "BAD-OP"
  | ["sharevec", st, xs, r0, r1] =>
    match ST.parse st, parseNatList? xs, parseNatList? r0, parseNatList? r1 with
    | some st, some xs, some r0, some r1 =>
      if xs.length = r0.length ∧ xs.length = r1.length then
        let s := shareVector st xs r0 r1
        " ".intercalate (showVal s.x2 :: (parties s ⟨marker, marker, marker⟩).map showT3)
      else "ERR"
    | _, _, _, _ => "BAD-OP"
  | ["reveal", s0, s1, s2] =>
    match parseVal? s0, parseVal? s1, parseVal? s2 with
    | some s0, some s1, some s2 => showOpt (reveal? ⟨s0, s1, s2⟩)
    | _, _, _ => "BAD-OP"
  | ["recon", i, j, a, b, c, a', b', c'] =>
    match parseNat? i, parseNat? j, parseVal? a, parseVal? b, parseVal? c, parseVal? a', parseVal? b', parseVal? c' with
    | some i, some j, some a, some b, some c, some a', some b', some c' =>
      if i % 3 = j % 3 then "ERR" else showSlot (recon i j ⟨a, b, c⟩ ⟨a', b', c'⟩)
    | _, _, _, _, _, _, _, _ => "BAD-OP"
  | ["unheld", i, v, a, b] =>
    match parseNat? i, parseVal? v, parseVal? a, parseVal? b with
    | some i, some v, some a, some b =>
      if like v a && like v b then
        let r := unheld i v (a, b)
        showVal r.1 ++ " " ++ showVal r.2
      else "ERR"
    | _, _, _, _ => "BAD-OP"
  | ["gsub", a, b] =>
    match parseVal? a, parseVal? b with
    | some a, some b => showOpt (gsub? a b)
    | _, _ => "BAD-OP"
  | ["gadd", a, b] =>
    match parseVal? a, parseVal? b with
    | some a, some b => showOpt (gadd? a b)
    | _, _ => "BAD-OP"
  | _ => "BAD-OP"

end CCV.Drv.C14
