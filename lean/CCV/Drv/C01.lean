import CCV.Drv.Util
import CCV.Model.Reshare
namespace CCV.Drv.C01
open CCV.Drv CCV.Reshare

def parseCls : Char → Option Cls
  | 'I' => some .input
  | 'L' => some .loc
  | 'P' => some .product
  | 'N' => some .need2
  | 'C' => some .cond1
  | 'X' => some .other
  | _ => none

def parseBit : Char → Option Bool
  | '0' => some false
  | '1' => some true
  | _ => none

/-- a node is `<cls><bcast><priv>:<size>:<deps>`, e.g. `P11:64:0,1`, `I01:8:_` -/
def parseNode (s : String) : Option Node :=
  match s.splitOn ":" with
  | [hd, sz, ds] =>
    match hd.toList with
    | [c, b, p] => do
      let cls ← parseCls c
      let bcast ← parseBit b
      let priv ← parseBit p
      let size ← parseNat? sz
      let deps ← parseNatList? ds
      pure { cls, bcast, priv, size, deps }
    | _ => none
  | _ => none

def parseGraph (out nodes : String) : Option Graph := do
  let o ← parseNat? out
  let ns ← (nodes.splitOn "|").mapM parseNode
  pure { nodes := ns, out := o }

def sortNat (xs : List Nat) : List Nat := xs.mergeSort (fun a b => decide (a ≤ b))

def trueIdx (bs : List Bool) : List Nat :=
  (List.range bs.length).filter (fun i => bs.getD i false)

/-- requests:
  `plan <out> <n0>|<n1>|…`  abstract plaintext graph → sorted `nodes_to_reshare`, `ERR` if the planner fails
  `unres <out> <n0>|<n1>|…` → sorted list of the nodes left 3-out-of-3 (not reshared) under the model's plan -/
def handle : List String → String
  | ["plan", out, nodes] =>
    match parseGraph out nodes with
    | some g =>
      match plan g with
      | some p => showList (sortNat p)
      | none => "ERR"
    | none => "BAD-OP"
  | ["unres", out, nodes] =>
    match parseGraph out nodes with
    | some g =>
      match plan g with
      | some p => showList (trueIdx (unresAll g p))
      | none => "ERR"
    | none => "BAD-OP"
  | _ => "BAD-OP"

end CCV.Drv.C01
