import CCV.Drv.Util
import CCV.Model.Inline
import CCV.Model.InlineBatch
import CCV.Drv.C07Fresh
namespace CCV.Drv.C07
open CCV CCV.Drv CCV.Inline CCV.InlineBatch

/-- an element of the free monoid over indices, printed as maximal ascending runs `lo-hi` joined by `.` -/
def runs : List Nat → List (Nat × Nat)
  | [] => []
  | x :: xs =>
    match runs xs with
    | (lo, hi) :: rest => if x + 1 = lo then (x, hi) :: rest else (x, x) :: (lo, hi) :: rest
    | [] => [(x, x)]

def showElem (e : List Nat) : String :=
  if e.isEmpty then "e" else ".".intercalate ((runs e).map (fun p => s!"{p.1}-{p.2}"))

def showElems (es : List (List Nat)) : String :=
  if es.isEmpty then "_" else ",".intercalate (es.map showElem)

def showTrace (t : Trace (List Nat)) : String :=
  if t.isEmpty then "_" else ",".intercalate (t.map (fun c => showElem c.1 ++ "+" ++ showElem c.2))

def freeItems (n : Nat) : List (List Nat) := (List.range n).map (fun i => [i])

def app (a b : List Nat) : List Nat := a ++ b

/-! strategy-level requests: concrete body families that the harness also builds as graphs -/

def W : Nat := 2 ^ 64
abbrev M2 := Nat × Nat × Nat × Nat

/-- 2x2 matrix product over Z/2^64 (`matmul` of UINT64 arrays) -/
def m2mul (a b : M2) : M2 :=
  let (a0, a1, a2, a3) := a
  let (b0, b1, b2, b3) := b
  ((a0 * b0 + a1 * b2) % W, (a0 * b1 + a1 * b3) % W, (a2 * b0 + a3 * b2) % W, (a2 * b1 + a3 * b3) % W)

def m2add (a b : M2) : M2 :=
  let (a0, a1, a2, a3) := a
  let (b0, b1, b2, b3) := b
  ((a0 + b0) % W, (a1 + b1) % W, (a2 + b2) % W, (a3 + b3) % W)

def parseM2? (s : String) : Option M2 :=
  match (s.splitOn ".").mapM String.toNat? with
  | some [a, b, c, d] => some (a, b, c, d)
  | _ => none

def parseM2List? (s : String) : Option (List M2) :=
  if s == "_" then some [] else (s.splitOn ",").mapM parseM2?

def showM2 (m : M2) : String := s!"{m.1}.{m.2.1}.{m.2.2.1}.{m.2.2.2}"

def parseLevel? : String → Option Level
  | "d" => some .default
  | "e" => some .extreme
  | _ => none

def showOuts (emptyOut : Bool) (n : Nat) (outs : List String) : String :=
  if emptyOut then s!"u{n}" else if outs.isEmpty then "_" else ",".intercalate outs

/-- body of the associative family: `(state·input, state+input)` on 2x2 matrices -/
def gAssoc (a b : M2) : M2 × M2 := (m2mul a b, m2add a b)

/-- body of the one-bit family: new state = `a·s·x ⊕ b·s ⊕ c·x ⊕ d` with `tt = 8a+4b+2c+d`, output `s ⊕ x` -/
def gOneBit (tt : Nat) (s x : Bool) : Bool × Bool :=
  (xor (xor (tt.testBit 3 && s && x) (tt.testBit 2 && s)) (xor (tt.testBit 1 && x) (tt.testBit 0)), xor s x)

/-- bodies of the small-state family on `K` bits, input one bit, output = old state:
    0: counter `s + x mod 2^K`;  1: `x ? 2^K-1 : rotl(s)` -/
def gSmall (K fam : Nat) (s : Nat) (x : Nat) : Nat × Nat :=
  if fam == 0 then ((s + x % 2) % 2 ^ K, s)
  else ((if x % 2 == 1 then 2 ^ K - 1 else (s * 2) % 2 ^ K + s / 2 ^ (K - 1)), s)


/-! batched families (`smallb`, `onebitb`): the state is a flat BIT array of shape `B ++ [K]` (resp. of
    dimensions `sh`), one input = one bit per batch row (resp. per position), packed little endian
    into a number (bit `r` = the input of row / position `r`) -/

def parseDims? (s : String) : Option (List Nat) :=
  if s == "_" then some [] else (s.splitOn ".").mapM String.toNat?

def showBits (xs : List Nat) : String := if xs.isEmpty then "-" else ".".intercalate (xs.map toString)

/-- rows of `K` bits (little endian) of a flat array -/
def rowsOf (K : Nat) (s : List Nat) : List Nat :=
  (List.range (s.length / K)).map fun r =>
    (List.range K).foldl (fun acc k => acc + (s.getD (r * K + k) 0 % 2) * 2 ^ k) 0

def ofRows (K : Nat) (rs : List Nat) : List Nat :=
  rs.flatMap fun v => (List.range K).map fun k => (v >>> k) % 2

/-- body of the batched small-state family: row `r` steps with `gSmall K fam` on input bit `r` of `x`;
    output = old state -/
def gSmallB (K fam : Nat) (st : List Nat) (x : Nat) : List Nat × List Nat :=
  (ofRows K ((rowsOf K st).zipIdx.map fun (v, r) => (gSmall K fam v ((x >>> r) % 2)).1), st)

/-- body of the batched one-bit family: position `r` steps with `gOneBit tt` on input bit `r` of `x`;
    output = `state ⊕ input`, elementwise -/
def gOneBitB (tt : Nat) (st : List Nat) (x : Nat) : List Nat × List Nat :=
  let r := st.zipIdx.map fun (v, r) => gOneBit tt (v % 2 == 1) ((x >>> r) % 2 == 1)
  (r.map (·.1.toNat), r.map (·.2.toNat))

/-- requests:
  `assoc <d|e> <emptyOut> <s> <xs>`            → `iterAssoc` on 2x2 matrices: `<final>|<outputs>`
  `onebit <d|e> <emptyOut> <tt> <s> <xs>`      → `iterOneBit`
  `small <d|e> <emptyOut> <K> <fam> <s> <xs>`  → `iterSmall`
  `smallb <d|e> <emptyOut> <K> <B> <fam> <s bits> <xs>`  → `iterSmallB` (batch shape `B`, flat state)
  `onebitb <d|e> <emptyOut> <sh> <tt> <s bits> <xs>`     → `iterOneBitB` (state dimensions `sh`)
  `prefix <which> <n>`  → `<results>|<trace>` of the Rust prefix function `which`
                          (binary_ascent | sqrt_trick | segment_tree | picked_default | picked_extreme)
                          on the free monoid over `n` generators, combine = concatenation
  `logsum <n>`          → `<result>|<trace>` of `log_depth_sum`, `ERR` for the empty vector -/
def handle : List String → String
  | "fresh" :: rest => C07Fresh.handle rest
  | ["prefix", which, n] =>
    match parseNat? n with
    | some n =>
      let items := freeItems n
      let r? : Option (List (List Nat) × Trace (List Nat)) :=
        match which with
        | "binary_ascent" => some (prefixBinaryAscentT app items)
        | "sqrt_trick" => some (prefixSqrtT app items)
        | "segment_tree" => some (prefixSegmentTreeT app items)
        | "picked_default" => some (pickT .default n app items)
        | "picked_extreme" => some (pickT .extreme n app items)
        | _ => none
      match r? with
      | some r => showElems r.1 ++ "|" ++ showTrace r.2
      | none => "BAD-OP"
    | none => "BAD-OP"
  | ["assoc", lv, eo, s, xs] =>
    match parseLevel? lv, parseNat? eo, parseM2? s, parseM2List? xs with
    | some lv, some eo, some s, some xs =>
      let r := iterAssoc lv (eo == 1) (0, 0, 0, 0) gAssoc s xs
      showM2 r.1 ++ "|" ++ showOuts (eo == 1) xs.length (r.2.map showM2)
    | _, _, _, _ => "BAD-OP"
  | ["onebit", lv, eo, tt, s, xs] =>
    match parseLevel? lv, parseNat? eo, parseNat? tt, parseNat? s, parseNatList? xs with
    | some lv, some eo, some tt, some s, some xs =>
      let r := iterOneBit lv (eo == 1) false (gOneBit tt) (s == 1) (xs.map (· == 1))
      showBool r.1 ++ "|" ++ showOuts (eo == 1) xs.length (r.2.map showBool)
    | _, _, _, _, _ => "BAD-OP"
  | ["small", lv, eo, k, fam, s, xs] =>
    match parseLevel? lv, parseNat? eo, parseNat? k, parseNat? fam, parseNat? s, parseNatList? xs with
    | some lv, some eo, some k, some fam, some s, some xs =>
      let r := iterSmall lv k (eo == 1) 0 (gSmall k fam) s xs
      toString r.1 ++ "|" ++ showOuts (eo == 1) xs.length (r.2.map toString)
    | _, _, _, _, _, _ => "BAD-OP"
  | ["smallb", lv, eo, k, b, fam, s, xs] =>
    match parseLevel? lv, parseNat? eo, parseNat? k, parseDims? b, parseNat? fam, parseNatList? s, parseNatList? xs with
    | some lv, some eo, some k, some b, some fam, some s, some xs =>
      let r := iterSmallB lv b k (eo == 1) [] (gSmallB k fam) s xs
      showBits r.1 ++ "|" ++ showOuts (eo == 1) xs.length (r.2.map showBits)
    | _, _, _, _, _, _, _ => "BAD-OP"
  | ["onebitb", lv, eo, sh, tt, s, xs] =>
    match parseLevel? lv, parseNat? eo, parseDims? sh, parseNat? tt, parseNatList? s, parseNatList? xs with
    | some lv, some eo, some sh, some tt, some s, some xs =>
      let r := iterOneBitB lv sh (eo == 1) [] (gOneBitB tt) s xs
      showBits r.1 ++ "|" ++ showOuts (eo == 1) xs.length (r.2.map showBits)
    | _, _, _, _, _, _ => "BAD-OP"
  | ["logsum", n] =>
    match parseNat? n with
    | some n =>
      let r := logDepthSumT app (freeItems n)
      match r.1 with
      | some e => showElem e ++ "|" ++ showTrace r.2
      | none => "ERR"
    | none => "BAD-OP"
  | _ => "BAD-OP"

end CCV.Drv.C07
