import CCV.Drv.Util
import CCV.Model.Approx
namespace CCV.Drv.C20
open CCV CCV.Drv CCV.Approx

def showOptInt : Option Int → String
  | some x => toString x
  | none => "ERR"

def parseOptInt? (s : String) : Option (Option Int) :=
  if s == "_" then some none else (parseInt? s).map some

/-- requests (all integers are the DENOTED values, decimal; `sg` = 1 for INT64/INT128, 0 unsigned;
    `s` = type width; `init` = supplied initial approximation or `_`):
  `newton <sg> <s> <c> <iters> <d> <init>`           → NewtonInversion result, `ERR` if rejected
  `isqrt  <sg> <s> <c> <iters> <d> <init>`           → InverseSqrt result
  `gold   <sg> <s> <c> <iters> <a> <d> <init>`       → GoldschmidtDivision result
  `fmul   <debug> <p> <a> <b>`                       → FixedMultiply (INT64), `ERR` when the debug assert fires
  `pwl    <L> <p> <left_fp> <divisor> <alphas> <betas> <xs>` → comma list of results (INT64)
  `texp   <terms> <p> <one_over_ln2> <ln2> <xs>`     → comma list of results (INT64) -/
def handle : List String → String
  | ["newton", sg, s, c, it, d, init] =>
    match parseNat? sg, parseNat? s, parseNat? c, parseNat? it, parseInt? d, parseOptInt? init with
    | some sg, some s, some c, some it, some d, some init => showOptInt (newton (sg == 1) s c it d init)
    | _, _, _, _, _, _ => "BAD-OP"
  | ["isqrt", sg, s, c, it, d, init] =>
    match parseNat? sg, parseNat? s, parseNat? c, parseNat? it, parseInt? d, parseOptInt? init with
    | some sg, some s, some c, some it, some d, some init => showOptInt (inverseSqrt (sg == 1) s c it d init)
    | _, _, _, _, _, _ => "BAD-OP"
  | ["gold", sg, s, c, it, a, d, init] =>
    match parseNat? sg, parseNat? s, parseNat? c, parseNat? it, parseInt? a, parseInt? d, parseOptInt? init with
    | some sg, some s, some c, some it, some a, some d, some init =>
      showOptInt (goldschmidt (sg == 1) s c it a d init)
    | _, _, _, _, _, _, _ => "BAD-OP"
  | ["fmul", dbg, p, a, b] =>
    match parseNat? dbg, parseNat? p, parseInt? a, parseInt? b with
    | some dbg, some p, some a, some b =>
      if dbg == 1 then showOptInt (fixedMulDebug 64 a b p) else toString (fixedMul 64 a b p)
    | _, _, _, _ => "BAD-OP"
  | ["pwl", l, p, left, dv, al, be, xs] =>
    match parseNat? l, parseNat? p, parseInt? left, parseInt? dv, parseIntList? al, parseIntList? be, parseIntList? xs with
    | some l, some p, some left, some dv, some al, some be, some xs =>
      let t : Pwl := { logBuckets := l, precision := p, leftFp := left, divisor := dv, alphas := al, betas := be }
      showList (xs.map (pwlEval true 64 t))
    | _, _, _, _, _, _, _ => "BAD-OP"
  | ["texp", t, p, c1, c2, xs] =>
    match parseNat? t, parseNat? p, parseInt? c1, parseInt? c2, parseIntList? xs with
    | some t, some p, some c1, some c2, some xs => showList (xs.map (taylorExp 64 t p c1 c2))
    | _, _, _, _, _ => "BAD-OP"
  | _ => "BAD-OP"

end CCV.Drv.C20
