import CCV.Drv.Util
import CCV.Drv.C13
import CCV.Model.TypeInfer
import CCV.Model.EvalOps
namespace CCV.Drv.C09
open CCV CCV.Drv CCV.TV CCV.TI

/-! request `infer <op> <k> <type>…` → `ok <type>` | `ERR`.
  Types / values use the token encoding of `Drv/C13.lean`.  Operation encodings (first token = name):
  `Input T` `Zeros T` `Ones T` `Random T` `PRF T` `Reshape T` `CreateVector T` `Constant T V`
  `Gemm <0/1> <0/1>` `Truncate <d>` `Sum <axes>` `CumSum <axis>` `PermuteAxes <axes>` `Get <index>`
  `GetSlice <k> el…` with el = `i<int>` | `s<b>:<e>:<s>` (`N` = None) | `e`
  `Stack <outer>` `Concatenate <axis>` `B2A <st>` `CreateNamedTuple <k> N<name>…` `TupleGet <i>`
  `NamedTupleGet N<name>` `Repeat <n>` `Gather <axis>` `ApplyPermutation <0/1>` `Sort N<key>`
  `RandomPermutation <n>` `PermutationFromPRF <n>` `DecomposeSwitchingMap <n>`
  `Call <k> T… T` `Iterate <k> T… T` (input types of the callee, then its output type)
  and the parameterless `Add Subtract Multiply MixedMultiply Dot Matmul NOP A2B CreateTuple VectorGet Zip
  ArrayToVector VectorToArray CuckooHash InversePermutation CuckooToPermutation SegmentCumSum Print Assert`.
  Further requests: `bcast <s1> <s2>` (`broadcast_shapes`), `slice <shape> <k> el…` (`get_slice_shape`),
  `sidx <shape> <index> <k> el…` (`slice_index`),
  `evalop <op> <k> <type>… <value>…(k values)` (`EvalOps.evalOp`, one node of `SimpleEvaluator::evaluate_node`)
  → `ok <value>` | `ERR` | `UNCOVERED` (operation outside the covered set: 32 operations are covered, incl.
  Stack / Concatenate / B2A, GetSlice, Reshape of compound types, tuple / vector constructors and accessors,
  VectorGet, Zip, Repeat, ApplyPermutation); value encoding:
  `r:<residues>` (scalar / array, `r:_` = empty) | `l:<n>` V… (vector / tuple). -/

def parseOptInt? (s : String) : Option (Option Int) :=
  if s == "N" then some none else (parseInt? s).map some

def parseSliceEl? (tok : String) : Option SliceEl :=
  match tok.toList with
  | 'e' :: [] => some .ellipsis
  | 'i' :: r => (parseInt? (String.ofList r)).map .single
  | 's' :: r =>
    match (String.ofList r).splitOn ":" with
    | [b, e, s] =>
      match parseOptInt? b, parseOptInt? e, parseOptInt? s with
      | some b, some e, some s => some (.sub b e s)
      | _, _, _ => none
    | _ => none
  | _ => none

def takeN (k : Nat) (toks : List String) : Option (List String × List String) :=
  if toks.length < k then none else some (toks.take k, toks.drop k)

def parseSlice? (toks : List String) : Option (List SliceEl × List String) :=
  match toks with
  | k :: rest =>
    match parseNat? k with
    | some k =>
      match takeN k rest with
      | some (els, rest) => (els.mapM parseSliceEl?).map (fun sl => (sl, rest))
      | none => none
    | none => none
  | [] => none

def parseTys? (toks : List String) : Option (List Ty × List String) :=
  match toks with
  | k :: rest => (parseNat? k).bind (fun k => C13.parseTy.many rest.length k rest)
  | [] => none

def pTy (toks : List String) : Option (Ty × List String) := C13.parseTy toks.length toks

def b01 (s : String) : Bool := s == "1"

def parseOp? : List String → Option (Op × List String)
  | "Input" :: r => (pTy r).map (fun (t, r) => (.input t, r))
  | "Zeros" :: r => (pTy r).map (fun (t, r) => (.zeros t, r))
  | "Ones" :: r => (pTy r).map (fun (t, r) => (.ones t, r))
  | "Random" :: r => (pTy r).map (fun (t, r) => (.random t, r))
  | "PRF" :: r => (pTy r).map (fun (t, r) => (.prf t, r))
  | "Reshape" :: r => (pTy r).map (fun (t, r) => (.reshape t, r))
  | "CreateVector" :: r => (pTy r).map (fun (t, r) => (.createVector t, r))
  | "Constant" :: r => (C13.parseTyVal r).map (fun (t, v, r) => (.constant t v, r))
  | "Add" :: r => some (.add, r)
  | "Subtract" :: r => some (.subtract, r)
  | "Multiply" :: r => some (.multiply, r)
  | "MixedMultiply" :: r => some (.mixedMultiply, r)
  | "Dot" :: r => some (.dot, r)
  | "Matmul" :: r => some (.matmul, r)
  | "Gemm" :: a :: b :: r => some (.gemm (b01 a) (b01 b), r)
  | "Truncate" :: d :: r => (parseNat? d).map (fun d => (.truncate d, r))
  | "Sum" :: a :: r => (parseNatList? a).map (fun a => (.sum a, r))
  | "CumSum" :: a :: r => (parseNat? a).map (fun a => (.cumSum a, r))
  | "PermuteAxes" :: a :: r => (parseNatList? a).map (fun a => (.permuteAxes a, r))
  | "Get" :: a :: r => (parseNatList? a).map (fun a => (.get a, r))
  | "GetSlice" :: r => (parseSlice? r).map (fun (sl, r) => (.getSlice sl, r))
  | "NOP" :: r => some (.nop, r)
  | "PermutationFromPRF" :: n :: r => (parseNat? n).map (fun n => (.permutationFromPRF n, r))
  | "Stack" :: a :: r => (parseNatList? a).map (fun a => (.stack a, r))
  | "Concatenate" :: a :: r => (parseNat? a).map (fun a => (.concatenate a, r))
  | "A2B" :: r => some (.a2b, r)
  | "B2A" :: st :: r => (ST.parse st).map (fun st => (.b2a st, r))
  | "CreateTuple" :: r => some (.createTuple, r)
  | "CreateNamedTuple" :: k :: r =>
    match parseNat? k with
    | some k => (takeN k r).map (fun (ns, r) => (.createNamedTuple (ns.map C13.tail1), r))
    | none => none
  | "TupleGet" :: i :: r => (parseNat? i).map (fun i => (.tupleGet i, r))
  | "NamedTupleGet" :: n :: r => some (.namedTupleGet (C13.tail1 n), r)
  | "VectorGet" :: r => some (.vectorGet, r)
  | "Zip" :: r => some (.zip, r)
  | "Repeat" :: n :: r => (parseNat? n).map (fun n => (.repeat_ n, r))
  | "Call" :: r =>
    match parseTys? r with
    | some (ins, r) => (pTy r).map (fun (out, r) => (.call ins out, r))
    | none => none
  | "Iterate" :: r =>
    match parseTys? r with
    | some (ins, r) => (pTy r).map (fun (out, r) => (.iterate ins out, r))
    | none => none
  | "ArrayToVector" :: r => some (.arrayToVector, r)
  | "VectorToArray" :: r => some (.vectorToArray, r)
  | "RandomPermutation" :: n :: r => (parseNat? n).map (fun n => (.randomPermutation n, r))
  | "Gather" :: a :: r => (parseNat? a).map (fun a => (.gather a, r))
  | "CuckooHash" :: r => some (.cuckooHash, r)
  | "InversePermutation" :: r => some (.inversePermutation, r)
  | "CuckooToPermutation" :: r => some (.cuckooToPermutation, r)
  | "DecomposeSwitchingMap" :: n :: r => (parseNat? n).map (fun n => (.decomposeSwitchingMap n, r))
  | "SegmentCumSum" :: r => some (.segmentCumSum, r)
  | "ApplyPermutation" :: b :: r => some (.applyPermutation (b01 b), r)
  | "Sort" :: k :: r => some (.sort (C13.tail1 k), r)
  | "Print" :: r => some (.print, r)
  | "Assert" :: r => some (.assert, r)
  | _ => none

def showTyE : Except String Ty → String
  | .ok t => "ok " ++ C13.showTy t
  | .error _ => "ERR"

/-- value of `evalop`: `r:<residues>` | `l:<n>` V… -/
def parseEV : Nat → List String → Option (EvalOps.EV × List String)
  | 0, _ => none
  | fuel + 1, tok :: rest =>
    match tok.splitOn ":" with
    | ["r", xs] => (parseNatList? xs).map (fun xs => (.arr xs, rest))
    | ["l", k] => (parseNat? k).bind (fun k => (many fuel k rest).map (fun (vs, r) => (.vec vs, r)))
    | _ => none
  | _, [] => none
where
  many (fuel : Nat) : Nat → List String → Option (List EvalOps.EV × List String)
    | 0, rest => some ([], rest)
    | k + 1, rest =>
      match parseEV fuel rest with
      | some (v, rest) => (many fuel k rest).map (fun (vs, r) => (v :: vs, r))
      | none => none

partial def showEV : EvalOps.EV → String
  | .arr xs => s!"r:{showList xs}"
  | .vec vs => " ".intercalate (s!"l:{vs.length}" :: vs.map showEV)

def showEVE : Except String EvalOps.EV → String
  | .ok v => "ok " ++ showEV v
  | .error e => if e.startsWith "evalOp:" then "UNCOVERED" else "ERR"

def handle : List String → String
  | "evalop" :: toks =>
    match parseOp? toks with
    | some (op, rest) =>
      match parseTys? rest with
      | some (tys, rest) =>
        match parseEV.many (rest.length + 1) tys.length rest with
        | some (vs, []) => showEVE (EvalOps.evalOp op tys vs)
        | _ => "BAD-OP"
      | none => "BAD-OP"
    | none => "BAD-OP"
  | "infer" :: toks =>
    match parseOp? toks with
    | some (op, rest) =>
      match parseTys? rest with
      | some (tys, []) => showTyE (infer op tys)
      | _ => "BAD-OP"
    | none => "BAD-OP"
  | ["bcast", a, b] =>
    match parseNatList? a, parseNatList? b with
    | some a, some b => showExcept (broadcastShapes a b)
    | _, _ => "BAD-OP"
  | "slice" :: sh :: toks =>
    match parseNatList? sh, parseSlice? toks with
    | some sh, some (sl, []) => showExcept (getSliceShape sh sl)
    | _, _ => "BAD-OP"
  | "sidx" :: sh :: idx :: toks =>
    match parseNatList? sh, parseNatList? idx, parseSlice? toks with
    | some sh, some idx, some (sl, []) => showExcept (sliceIndex sh sl idx)
    | _, _, _ => "BAD-OP"
  | _ => "BAD-OP"

end CCV.Drv.C09
