import CCV.Drv.Util
import CCV.Model.Division
namespace CCV.Drv.C17
open CCV CCV.Drv CCV.Adder CCV.Mux CCV.Clip CCV.Division

/-- bit strings are written index 0 (least significant bit) first, as characters `0`/`1`. -/
def parseBits? (s : String) : Option (List Bool) :=
  s.toList.mapM (fun c => if c == '0' then some false else if c == '1' then some true else none)

def showBits (bs : List Bool) : String := String.ofList (bs.map (fun b => if b then '1' else '0'))

def parseBit? (s : String) : Option Bool :=
  if s == "0" then some false else if s == "1" then some true else none

/-- requests (one array element each; broadcasting is resolved by the harness):
  `add <ov 0/1> <a> <b>`          → `BinaryAdd{overflow_bit}`: `<sum>` or `<sum> <overflow bit>`
  `muxb <flag> <c1> <c0>`         → `Mux` on bits
  `muxi <w> <flag> <c1> <c0>`     → `Mux` on residues modulo 2^w (non-bit choices)
  `clip <k> <x>`                  → `Clip2K{k}`
  `div <signed 0/1> <a> <d>`      → `LongDivision{signed}`: `<quotient> <remainder>` -/
def handle : List String → String
  | ["add", ov, a, b] =>
    match parseBit? ov, parseBits? a, parseBits? b with
    | some ov, some a, some b =>
      match binaryAdd ov a b with
      | .ok (s, none) => showBits s
      | .ok (s, some o) => showBits s ++ " " ++ showBits [o]
      | .error _ => "ERR"
    | _, _, _ => "BAD-OP"
  | ["muxb", f, x1, x0] =>
    match parseBit? f, parseBit? x1, parseBit? x0 with
    | some f, some x1, some x0 => showBits [muxBit f x1 x0]
    | _, _, _ => "BAD-OP"
  | ["muxi", w, f, x1, x0] =>
    match parseNat? w, parseBit? f, parseNat? x1, parseNat? x0 with
    | some w, some f, some x1, some x0 => toString (muxInt w f x1 x0)
    | _, _, _, _ => "BAD-OP"
  | ["clip", k, x] =>
    match parseNat? k, parseBits? x with
    | some k, some x =>
      match clip2k k x with
      | .ok r => showBits r
      | .error _ => "ERR"
    | _, _ => "BAD-OP"
  | ["div", sg, a, d] =>
    match parseBit? sg, parseBits? a, parseBits? d with
    | some sg, some a, some d =>
      match longDivision sg a d with
      | .ok (q, r) => showBits q ++ " " ++ showBits r
      | .error _ => "ERR"
    | _, _, _ => "BAD-OP"
  | _ => "BAD-OP"

end CCV.Drv.C17
