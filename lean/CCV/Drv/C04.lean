import CCV.Drv.Util
import CCV.Model.PrfIds
namespace CCV.Drv.C04
open CCV.Drv CCV.PrfIds

def parseNode (s : String) : Option (Option Nat) :=
  if s == "n" then some none else (s.toNat?).map some

def parseGraph (s : String) : Option (List (Option Nat)) :=
  if s == "_" then some [] else (s.splitOn ",").mapM parseNode

def showGraph (g : List (Option Nat)) : String :=
  if g.isEmpty then "_" else ",".intercalate (g.map fun | none => "n" | some v => toString v)

/-- requests:
  `uniquify <g1>|<g2>|…`  graphs of a context; a node is `n` (not a PRF op) or the PRF counter
     → the graphs after `uniquify_prf_id`
  `distinct <ivs>` → `1` iff strictInc or nodupB accepts the list -/
def handle : List String → String
  | ["uniquify", gs] =>
    match (gs.splitOn "|").mapM parseGraph with
    | some gs => "|".intercalate ((uniquify 0 gs).map showGraph)
    | none => "BAD-OP"
  | ["distinct", xs] =>
    match parseNatList? xs with
    | some xs => showBool (strictInc xs || nodupB xs)
    | none => "BAD-OP"
  | _ => "BAD-OP"

end CCV.Drv.C04
