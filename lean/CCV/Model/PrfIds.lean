/-
  C04 — PRF counters.  Model of `uniquify_prf_id` (mpc_compiler.rs): one counter runs over all
  graphs of the context and all nodes of each graph, in order; every PRF operation
  (`PRF`, `PermutationFromPRF`) gets the next value, everything else is copied.
  Nodes are abstracted to `Option Nat`: `some iv` = a PRF operation carrying counter `iv`,
  `none` = any other operation.   Import-free.
-/
namespace CCV.PrfIds

/-- renumber one graph starting after counter `c`; returns the new counter and the new nodes -/
def renumberGraph : Nat → List (Option Nat) → Nat × List (Option Nat)
  | c, [] => (c, [])
  | c, none :: ns => let (c', r) := renumberGraph c ns; (c', none :: r)
  | c, some _ :: ns => let (c', r) := renumberGraph (c + 1) ns; (c', some (c + 1) :: r)

/-- `uniquify_prf_id` over the graphs of a context -/
def uniquify : Nat → List (List (Option Nat)) → List (List (Option Nat))
  | _, [] => []
  | c, g :: gs => let (c', g') := renumberGraph c g; g' :: uniquify c' gs

/-- the PRF counters of a context, in graph and node order -/
def ivs (gs : List (List (Option Nat))) : List Nat :=
  gs.flatMap (fun g => g.filterMap id)

/-- linear-time check used on exported graphs: counters strictly increase along the node list
    (true after renumbering; every optimiser pass preserves the relative order of surviving nodes) -/
def strictInc : List Nat → Bool
  | [] => true
  | [_] => true
  | a :: b :: rest => decide (a < b) && strictInc (b :: rest)

/-- quadratic fallback: plain pairwise distinctness -/
def nodupB : List Nat → Bool
  | [] => true
  | a :: rest => !(rest.contains a) && nodupB rest

end CCV.PrfIds
