/-
  Model of the index arithmetic of ciphercore-base/src/broadcast.rs (`index_to_number`,
  `number_to_index`, `broadcast_shapes`) and of `broadcast_to_shape`
  (evaluators/simple_evaluator.rs:27-37).  Import-free (linked into the model driver).
  Shapes and multi-indices are `List Nat`; flat arrays are `List Nat` (residues).
-/
namespace CCV.Shape

/-- `shape.iter().product()` -/
def prod : List Nat → Nat
  | [] => 1
  | d :: ds => d * prod ds

/-- loop of `index_to_number`: `num = num * d + (index[i] % d)` for the dimensions left.
    (Rust panics when the index is shorter than the shape; the model reads a missing digit as 0.) -/
def i2nAux (num : Nat) : List Nat → List Nat → Nat
  | _, [] => num
  | idx, d :: ds => i2nAux (num * d + idx.headD 0 % d) idx.tail ds

/-- `index_to_number(index, shape)` (broadcast.rs:83). -/
def indexToNumber (index shape : List Nat) : Nat := i2nAux 0 index shape

/-- loop of `number_to_index`: `radix /= d; digit = num_left / radix; num_left %= radix`. -/
def n2iAux (numLeft radix : Nat) : List Nat → List Nat
  | [] => []
  | d :: ds => (numLeft / (radix / d)) :: n2iAux (numLeft % (radix / d)) (radix / d) ds

/-- `number_to_index(num, shape)` (broadcast.rs:92). -/
def numberToIndex (num : Nat) (shape : List Nat) : List Nat := n2iAux num (prod shape) shape

/-- `broadcast_to_shape(arr, shape, shape_res)` (simple_evaluator.rs:27): entry `i` of the result is
    `arr[index_to_number(number_to_index(i, shape_res)[offset..], shape)]`. -/
def broadcastToShape (arr : List Nat) (shape shapeRes : List Nat) : List Nat :=
  (List.range (prod shapeRes)).map fun i =>
    arr.getD (indexToNumber ((numberToIndex i shapeRes).drop (shapeRes.length - shape.length)) shape) 0

/-- `broadcast_shapes(s1, s2)` (broadcast.rs:5), on reversed shapes (aligned at the last axis). -/
def bcShapesRev : List Nat → List Nat → Option (List Nat)
  | [], ys => some ys
  | xs, [] => some xs
  | x :: xs, y :: ys =>
    if 1 < x ∧ 1 < y ∧ x ≠ y then none
    else match bcShapesRev xs ys with
      | none => none
      | some r => some (max x y :: r)

def broadcastShapes (s1 s2 : List Nat) : Option (List Nat) :=
  (bcShapesRev s1.reverse s2.reverse).map List.reverse

/-- `transpose_shape(shape, flag)` (type_inference.rs:179): swap the last two dimensions. -/
def transposeShape (shape : List Nat) (flag : Bool) : List Nat :=
  let n := shape.length
  if flag ∧ 1 < n then
    shape.take (n - 2) ++ [shape.getD (n - 1) 0, shape.getD (n - 2) 0]
  else shape

/-! ### specification-side notions (used by `Spec` and the theorems) -/

/-- `idx` is a valid multi-index of `shape`: same rank, every digit below its dimension. -/
def validIdx : List Nat → List Nat → Prop
  | [], [] => True
  | x :: xs, d :: ds => x < d ∧ validIdx xs ds
  | _, _ => False

/-- row-major position of a multi-index: `Σ_k idx_k · Π_{l>k} shape_l`. -/
def flat : List Nat → List Nat → Nat
  | x :: xs, _ :: ds => x * prod ds + flat xs ds
  | _, _ => 0

/-- all dimensions positive (`is_valid_shape`, without the overflow bound) -/
def pos (shape : List Nat) : Prop := ∀ d ∈ shape, 0 < d

/-- NumPy broadcasting, index side: the operand of shape `s` is read, for result index `I`, at the
    last `s.length` digits of `I`, with digit 0 on every axis of size 1. -/
def bcIdx (s I : List Nat) : List Nat :=
  List.zipWith (fun d x => if d = 1 then 0 else x) s (I.drop (I.length - s.length))

/-- axis-wise compatibility of an operand shape with the (equally long) tail of the result shape -/
def bcAligned : List Nat → List Nat → Prop
  | [], [] => True
  | d :: ds, r :: rs => (d = 1 ∨ d = r) ∧ bcAligned ds rs
  | _, _ => False

/-- `s` can be broadcast to `sr` (NumPy rule: aligned at the last axis; each axis equal or 1). -/
def bcOK (s sr : List Nat) : Prop :=
  s.length ≤ sr.length ∧ bcAligned s (sr.drop (sr.length - s.length))

end CCV.Shape
