/-
  Model of custom-operation instantiation (ciphercore-base/src/custom_ops.rs) and of the names
  reported by the public library custom operations (`CustomOperationBody::get_name` in
  custom_ops.rs, ops/*.rs, ops/pwl/*.rs, ops/fixed_precision/*.rs, mpc/low_mc.rs).

  Part 1 (names).  A Rust `format!` string is a list of `Piece`s; `opSpec` lists, for every public
  library operation, the pieces of its `get_name()`; `opName` renders them; `instName` is
  `Instantiation::get_name` (custom_ops.rs:568-583); `showTy` is `impl Display for Type`
  (data_types.rs:1027-1143).
  The names are modelled AS PATCHED by get_name_fix.diff (SortByIntegerKey, FixedMultiply,
  ApproxSigmoid, ApproxGelu, ApproxGeluDerivative, LowMC print all their parameters).

  Part 2 (pass).  `instantiate` mirrors `run_instantiation_pass` (custom_ops.rs:682-794) at the level
  of the dependency graph of instantiations: discovery by memoised depth-first search
  (`process_instantiation`), an order in which every instantiation comes after the ones it uses
  (`toposort`), gluing in that order with a cache keyed by (operation, argument types)
  (`glue_context`, `glued_instantiations_cache`), `set_name` with the uniqueness check of
  graphs.rs:4172-4193, finally gluing of the original context.  Generic in the operation type, the
  type type, the payload of plain nodes and (for evaluation) the values.
  No imports: this file is linked into the native model driver.
-/
namespace CCV.Instantiate

/-! ## Part 1: names -/

/-- one fragment of a Rust `format!` string after substitution -/
inductive Piece where
  /-- literal text -/
  | lit (s : List Char)
  /-- `{}` on a `u64` -/
  | nat (n : Nat)
  /-- `{}` on a `bool` -/
  | bool (b : Bool)
  /-- `{:?}` on a `String` (quoted, `"` and `\` escaped; other escapes of `str::escape_debug` —
      control characters, some Unicode classes — are outside the modelled domain) -/
  | str (s : List Char)
  deriving DecidableEq, Repr

def showBool : Bool → List Char
  | true => "true".toList
  | false => "false".toList

def escChar (c : Char) : List Char :=
  if c = '"' then ['\\', '"'] else if c = '\\' then ['\\', '\\'] else [c]

def escape : List Char → List Char
  | [] => []
  | c :: cs => escChar c ++ escape cs

def Piece.render : Piece → List Char
  | .lit s => s
  | .nat n => Nat.toDigits 10 n
  | .bool b => showBool b
  | .str s => '"' :: (escape s ++ ['"'])

def render : List Piece → List Char
  | [] => []
  | p :: ps => p.render ++ render ps

/-- the public library custom operations with their parameters (struct fields, in order) -/
inductive LibOp where
  | not                                                   -- custom_ops.rs `Not {}`
  | or                                                    -- custom_ops.rs `Or {}`
  | binaryAdd (overflowBit : Bool)                        -- ops/adder.rs
  | aucScore (fractionalBits : Nat) (debug : Bool)        -- ops/auc.rs `AucScore { fp }`
  | clip2K (k : Nat)                                      -- ops/clip.rs
  | greaterThan (signed : Bool)                           -- ops/comparisons.rs
  | notEqual
  | lessThan (signed : Bool)
  | lessThanEqualTo (signed : Bool)
  | greaterThanEqualTo (signed : Bool)
  | equal
  | min (signed : Bool)                                   -- ops/min_max.rs
  | max (signed : Bool)
  | mux                                                   -- ops/multiplexer.rs
  | longDivision (signed : Bool)                          -- ops/long_division.rs
  | newtonInversion (iterations cap2k : Nat)              -- ops/newton_inversion.rs
  | inverseSqrt (iterations cap2k : Nat)                  -- ops/inverse_sqrt.rs
  | goldschmidtDivision (iterations cap2k : Nat)          -- ops/goldschmidt_division.rs
  | taylorExponent (terms points : Nat)                   -- ops/taylor_exponent.rs
  | approxExponent (precision : Nat)                      -- ops/pwl/approx_exponent.rs
  | approxGelu (precision logBuckets : Nat)               -- ops/pwl/approx_gelu.rs
  | approxGeluDerivative (precision logBuckets : Nat)     -- ops/pwl/approx_gelu_derivative.rs
  | approxSigmoid (precision logBuckets : Nat)            -- ops/pwl/approx_sigmoid.rs
  | fixedMultiply (fractionalBits : Nat) (debug : Bool)   -- ops/fixed_precision/fixed_multiply.rs
  | sortByIntegerKey (key : List Char)                    -- ops/integer_key_sort.rs
  | lowMC (sBoxes rounds : Nat) (size128 : Bool)          -- mpc/low_mc.rs (block_size SIZE80 | SIZE128)
  deriving DecidableEq, Repr

/-- the format string of each `get_name()` (as patched, see header) -/
def opSpec : LibOp → List Piece
  | .not => [.lit "Not".toList]
  | .or => [.lit "Or".toList]
  | .binaryAdd b => [.lit "BinaryAdd(overflow_bit=".toList, .bool b, .lit ")".toList]
  | .aucScore f d =>
    [.lit "AucScore(fp=FixedPrecisionConfig { fractional_bits: ".toList, .nat f,
     .lit ", debug: ".toList, .bool d, .lit " })".toList]
  | .clip2K k => [.lit "Clip(".toList, .nat k, .lit ")".toList]
  | .greaterThan s => [.lit "GreaterThan(signed_comparison=".toList, .bool s, .lit ")".toList]
  | .notEqual => [.lit "NotEqual".toList]
  | .lessThan s => [.lit "LessThan(signed_comparison=".toList, .bool s, .lit ")".toList]
  | .lessThanEqualTo s => [.lit "LessThanEqualTo(signed_comparison=".toList, .bool s, .lit ")".toList]
  | .greaterThanEqualTo s => [.lit "GreaterThanEqualTo(signed_comparison=".toList, .bool s, .lit ")".toList]
  | .equal => [.lit "Equal".toList]
  | .min s => [.lit "Min(signed_comparison=".toList, .bool s, .lit ")".toList]
  | .max s => [.lit "Max(signed_comparison=".toList, .bool s, .lit ")".toList]
  | .mux => [.lit "Mux".toList]
  | .longDivision s => [.lit "LongDivision(signed=".toList, .bool s, .lit ")".toList]
  | .newtonInversion i c =>
    [.lit "NewtonDivision(iterations=".toList, .nat i, .lit ", cap=2**".toList, .nat c, .lit ")".toList]
  | .inverseSqrt i c =>
    [.lit "InverseSqrt(iterations=".toList, .nat i, .lit ", cap=2**".toList, .nat c, .lit ")".toList]
  | .goldschmidtDivision i c =>
    [.lit "GoldshmidtDivision(iterations=".toList, .nat i, .lit ", cap=2**".toList, .nat c, .lit ")".toList]
  | .taylorExponent t p =>
    [.lit "TaylorExponent(taylor_terms=".toList, .nat t, .lit ", fixed_precision_denom=2**".toList, .nat p,
     .lit ")".toList]
  | .approxExponent p => [.lit "ApproxExponent(scaling_factor=2**".toList, .nat p, .lit ")".toList]
  | .approxGelu p b =>
    [.lit "ApproxGelu(scaling_factor=2**".toList, .nat p, .lit ", log_buckets=".toList, .nat b, .lit ")".toList]
  | .approxGeluDerivative p b =>
    [.lit "ApproxGeluDerivative(scaling_factor=2**".toList, .nat p, .lit ", log_buckets=".toList, .nat b,
     .lit ")".toList]
  | .approxSigmoid p b =>
    [.lit "ApproxSigmoid(scaling_factor=2**".toList, .nat p, .lit ", log_buckets=".toList, .nat b,
     .lit ")".toList]
  | .fixedMultiply f d => [.lit "FixedMultiply(".toList, .nat f, .lit ", debug=".toList, .bool d, .lit ")".toList]
  | .sortByIntegerKey k => [.lit "SortIntegers(key=".toList, .str k, .lit ")".toList]
  | .lowMC s r b =>
    [.lit "LowMC(".toList, .nat s, .lit "-".toList, .nat r, .lit "-SIZE".toList,
     .nat (if b then 128 else 80), .lit ")".toList]

def opNameChars (op : LibOp) : List Char := render (opSpec op)

/-- `CustomOperation::get_name` -/
def opName (op : LibOp) : String := String.ofList (opNameChars op)

/-- `ScalarType` as far as `Display` looks at it: signedness and size in bits -/
structure ScalarT where
  signed : Bool
  bits : Nat
  deriving DecidableEq, Repr

/-- `impl Display for ScalarType` (data_types.rs:1078-1094) -/
def showScalar (st : ScalarT) : List Char :=
  if st.bits = 1 then "bit".toList
  else (if st.signed then 'i' else 'u') :: Nat.toDigits 10 st.bits

/-- `Type` (data_types.rs) -/
inductive Ty where
  | scalar (st : ScalarT)
  | array (shape : List Nat) (st : ScalarT)
  | vector (n : Nat) (t : Ty)
  | tuple (ts : List Ty)
  | named (fs : List (List Char × Ty))

/-- `form_array_shape_str` without the brackets -/
def showDims : List Nat → List Char
  | [] => []
  | [d] => Nat.toDigits 10 d
  | d :: ds => Nat.toDigits 10 d ++ ", ".toList ++ showDims ds

mutual
/-- `impl Display for Type` (data_types.rs:1124-1143) -/
def showTy : Ty → List Char
  | .scalar st => showScalar st
  | .array sh st => showScalar st ++ '[' :: (showDims sh ++ [']'])
  | .vector n t => '<' :: (showTy t ++ '{' :: (Nat.toDigits 10 n ++ "}>".toList))
  | .tuple ts => '(' :: (showTys ts ++ [')'])
  | .named fs => '(' :: (showFields fs ++ [')'])
/-- `form_tuple_vec_type_str`; also the argument list of `Instantiation::get_name` -/
def showTys : List Ty → List Char
  | [] => []
  | [t] => showTy t
  | t :: ts => showTy t ++ ", ".toList ++ showTys ts
/-- `form_named_tuple_vec_type_str`: a field prints as `\"name\": type` (backslashes included) -/
def showFields : List (List Char × Ty) → List Char
  | [] => []
  | [(n, t)] => "\\\"".toList ++ n ++ "\\\": ".toList ++ showTy t
  | (n, t) :: fs => "\\\"".toList ++ n ++ "\\\": ".toList ++ showTy t ++ ", ".toList ++ showFields fs
end

/-- `Instantiation::get_name` given the reported name of the operation and the printed argument
    list (custom_ops.rs:568-583): `__<name>::<<t1>, <t2>…>` -/
def instNameChars (nameChars : List Char) (args : List Char) : List Char :=
  "__".toList ++ nameChars ++ "::<".toList ++ args ++ ['>']

def instName (op : LibOp) (tys : List Ty) : String :=
  String.ofList (instNameChars (opNameChars op) (showTys tys))

/-! ## Part 2: the pass -/

/-- `Instantiation` (custom_ops.rs:543-546): the cache key -/
structure Inst (Op Ty : Type) where
  op : Op
  tys : List Ty
  deriving DecidableEq, Repr

/-- a node of a context before the pass: plain (any `Operation` but `Custom`, with its graph
    dependencies — `Call`, `Iterate` — and node dependencies as positions in the same graph), or
    custom with the instantiation `Instantiation::create_from_node` reads off it (operation and the
    types of its dependencies; contexts are type-checked while they are built) -/
inductive Node (Op Ty P : Type) where
  | plain (p : P) (gdeps : List Nat) (deps : List Nat)
  | custom (inst : Inst Op Ty) (deps : List Nat)
  deriving Repr

structure Graph (Op Ty P : Type) where
  nodes : List (Node Op Ty P)
  out : Nat
  deriving Repr

structure Ctx (Op Ty P : Type) where
  graphs : List (Graph Op Ty P)
  main : Nat
  deriving Repr

/-- a node after the pass: no custom operations -/
structure RNode (P : Type) where
  p : P
  gdeps : List Nat
  deps : List Nat
  deriving DecidableEq, Repr

structure RGraph (P : Type) where
  name : Option String
  nodes : List (RNode P)
  out : Nat
  deriving DecidableEq, Repr

structure RCtx (P : Type) where
  graphs : List (RGraph P)
  main : Nat
  deriving DecidableEq, Repr

section Pass
variable {Op Ty P : Type} [DecidableEq Op] [DecidableEq Ty]

def Node.inst? : Node Op Ty P → Option (Inst Op Ty)
  | .plain _ _ _ => none
  | .custom i _ => some i

/-- the custom nodes of a context in the order the pass meets them (graphs, then nodes) -/
def Ctx.uses (c : Ctx Op Ty P) : List (Inst Op Ty) :=
  c.graphs.flatMap fun g => g.nodes.filterMap Node.inst?

/-- `process_instantiation` + `toposort`: memoised depth-first search over the instantiations an
    instantiation uses; `done` lists finished instantiations, each after everything it uses.
    `lib i` is `i.op.instantiate(fake_context, i.tys)` (the fake context with all its graphs).
    Fuel bounds the nesting depth (a circular dependency is an error in the code, too). -/
def visit (lib : Inst Op Ty → Except String (Ctx Op Ty P)) :
    Nat → List (Inst Op Ty) → Inst Op Ty → Except String (List (Inst Op Ty))
  | fuel, done, i =>
    if i ∈ done then .ok done
    else match fuel with
      | 0 => .error "Circular dependency among instantiations"
      | fuel + 1 =>
        match lib i with
        | .error e => .error e
        | .ok body =>
          match body.uses.foldlM (fun d j => visit lib fuel d j) done with
          | .error e => .error e
          | .ok done' => .ok (done' ++ [i])

def visitAll (lib : Inst Op Ty → Except String (Ctx Op Ty P)) (fuel : Nat)
    (done : List (Inst Op Ty)) (js : List (Inst Op Ty)) : Except String (List (Inst Op Ty)) :=
  js.foldlM (fun d j => visit lib fuel d j) done

/-- `glued_instantiations_cache.get(..).expect("Should not be here")` -/
def cacheGet (cache : List (Inst Op Ty × Nat)) (i : Inst Op Ty) : Option Nat :=
  (cache.find? fun e => e.1 = i).map (·.2)

def mapIdx (gmap : List Nat) (gs : List Nat) : Except String (List Nat) :=
  gs.mapM fun g => match gmap[g]? with
    | some g' => .ok g'
    | none => .error "Graph is not found in graph_mapping"

/-- one node in `glue_context`: a custom node becomes a `Call` of the cached graph on the same
    dependencies, any other node is copied with its graph dependencies mapped -/
def glueNode (callP : P) (cache : List (Inst Op Ty × Nat)) (gmap : List Nat) :
    Node Op Ty P → Except String (RNode P)
  | .plain p gdeps deps =>
    match mapIdx gmap gdeps with
    | .ok gd => .ok ⟨p, gd, deps⟩
    | .error e => .error e
  | .custom i deps =>
    match cacheGet cache i with
    | some gi => .ok ⟨callP, [gi], deps⟩
    | none => .error "Should not be here"

def glueGraph (callP : P) (cache : List (Inst Op Ty × Nat)) (gmap : List Nat)
    (g : Graph Op Ty P) : Except String (RGraph P) :=
  match g.nodes.mapM (glueNode callP cache gmap) with
  | .ok ns => .ok ⟨none, ns, g.out⟩
  | .error e => .error e

/-- `glue_context`: the graphs of `c` are appended to the result context one by one (node
    positions are preserved); returns the new result and the graph mapping (old position → new) -/
def glueGraphs (callP : P) (cache : List (Inst Op Ty × Nat)) :
    List (Graph Op Ty P) → List (RGraph P) → List Nat → Except String (List (RGraph P) × List Nat)
  | [], res, gmap => .ok (res, gmap)
  | g :: gs, res, gmap =>
    match glueGraph callP cache gmap g with
    | .error e => .error e
    | .ok rg => glueGraphs callP cache gs (res ++ [rg]) (gmap ++ [res.length])

/-- `Context::set_graph_name` restricted to what can happen here: names must be unique -/
def setName (res : List (RGraph P)) (gi : Nat) (nm : String) : Except String (List (RGraph P)) :=
  if res.any (fun g => g.name == some nm) then .error "Graph names must be unique"
  else .ok (res.modify gi fun g => { g with name := some nm })

/-- the loop over the sorted instantiations (custom_ops.rs:769-787) -/
def glueInsts (callP : P) (nameOf : Inst Op Ty → String)
    (lib : Inst Op Ty → Except String (Ctx Op Ty P)) :
    List (Inst Op Ty) → List (RGraph P) → List (Inst Op Ty × Nat) →
    Except String (List (RGraph P) × List (Inst Op Ty × Nat))
  | [], res, cache => .ok (res, cache)
  | i :: is, res, cache =>
    match lib i with
    | .error e => .error e
    | .ok body =>
      match glueGraphs callP cache body.graphs res [] with
      | .error e => .error e
      | .ok (res', gmap) =>
        match gmap[body.main]? with
        | none => .error "Graph is not found in graph_mapping"
        | some gi =>
          match setName res' gi (nameOf i) with
          | .error e => .error e
          | .ok res'' => glueInsts callP nameOf lib is res'' ((i, gi) :: cache)

/-- `run_instantiation_pass` -/
def instantiate (callP : P) (nameOf : Inst Op Ty → String)
    (lib : Inst Op Ty → Except String (Ctx Op Ty P)) (fuel : Nat) (c : Ctx Op Ty P) :
    Except String (RCtx P × List (Inst Op Ty × Nat)) :=
  match visitAll lib fuel [] c.uses with
  | .error e => .error e
  | .ok order =>
    match glueInsts callP nameOf lib order [] [] with
    | .error e => .error e
    | .ok (res, cache) =>
      match glueGraphs callP cache c.graphs res [] with
      | .error e => .error e
      | .ok (res', gmap) =>
        match gmap[c.main]? with
        | none => .error "Graph is not found in graph_mapping"
        | some m => .ok (⟨res', m⟩, cache)

end Pass

/-! ## Evaluation (generic in the semantics of plain nodes)

`sem p fs args ds`: value of a plain node with payload `p`, where `fs` are the functions computed
by its graph dependencies, `args` the arguments of the enclosing graph (for `Input`) and `ds` the
values of its node dependencies. -/
section Eval
variable {Op Ty P V : Type}

abbrev Fn (V : Type) := List V → Option V

def stepR (sem : P → List (Fn V) → List V → List V → Option V) (fs : List (Fn V)) (args : List V)
    (acc : Option (List V)) (n : RNode P) : Option (List V) :=
  match acc with
  | none => none
  | some vs =>
    match n.deps.mapM (fun d => vs[d]?), n.gdeps.mapM (fun g => fs[g]?) with
    | some ds, some gs =>
      match sem n.p gs args ds with
      | some v => some (vs ++ [v])
      | none => none
    | _, _ => none

/-- evaluation of a graph of the result context, given the functions of the earlier graphs -/
def evalRGraph (sem : P → List (Fn V) → List V → List V → Option V) (fs : List (Fn V))
    (g : RGraph P) : Fn V := fun args =>
  match g.nodes.foldl (stepR sem fs args) (some []) with
  | some vs => vs[g.out]?
  | none => none

/-- the functions computed by the graphs of a result context; graph `k` sees graphs `< k` -/
def semsR (sem : P → List (Fn V) → List V → List V → Option V) (gs : List (RGraph P)) : List (Fn V) :=
  gs.foldl (fun fs g => fs ++ [evalRGraph sem fs g]) []

def evalRCtx (sem : P → List (Fn V) → List V → List V → Option V) (c : RCtx P) : Fn V := fun args =>
  match (semsR sem c.graphs)[c.main]? with
  | some f => f args
  | none => none

def step (sem : P → List (Fn V) → List V → List V → Option V) (cust : Inst Op Ty → Fn V)
    (fs : List (Fn V)) (args : List V) (acc : Option (List V)) (n : Node Op Ty P) : Option (List V) :=
  match acc with
  | none => none
  | some vs =>
    match n with
    | .plain p gdeps deps =>
      match deps.mapM (fun d => vs[d]?), gdeps.mapM (fun g => fs[g]?) with
      | some ds, some gs =>
        match sem p gs args ds with
        | some v => some (vs ++ [v])
        | none => none
      | _, _ => none
    | .custom i deps =>
      match deps.mapM (fun d => vs[d]?) with
      | some ds =>
        match cust i ds with
        | some v => some (vs ++ [v])
        | none => none
      | none => none

/-- reference evaluation of a graph before the pass: a custom node is evaluated by `cust`, the
    function the library defines for that operation at those argument types -/
def evalGraph (sem : P → List (Fn V) → List V → List V → Option V) (cust : Inst Op Ty → Fn V)
    (fs : List (Fn V)) (g : Graph Op Ty P) : Fn V := fun args =>
  match g.nodes.foldl (step sem cust fs args) (some []) with
  | some vs => vs[g.out]?
  | none => none

def sems (sem : P → List (Fn V) → List V → List V → Option V) (cust : Inst Op Ty → Fn V)
    (gs : List (Graph Op Ty P)) : List (Fn V) :=
  gs.foldl (fun fs g => fs ++ [evalGraph sem cust fs g]) []

def evalCtx (sem : P → List (Fn V) → List V → List V → Option V) (cust : Inst Op Ty → Fn V)
    (c : Ctx Op Ty P) : Fn V := fun args =>
  match (sems sem cust c.graphs)[c.main]? with
  | some f => f args
  | none => none

/-- on-the-fly instantiation: the function of `(op, types)` is the evaluation of the context
    `op.instantiate(types)` builds, nested custom nodes evaluated the same way -/
def refSem (sem : P → List (Fn V) → List V → List V → Option V)
    (lib : Inst Op Ty → Except String (Ctx Op Ty P)) : Nat → Inst Op Ty → Fn V
  | 0 => fun _ _ => none
  | fuel + 1 => fun i args =>
    match lib i with
    | .ok body => evalCtx sem (refSem sem lib fuel) body args
    | .error _ => none

end Eval

end CCV.Instantiate
