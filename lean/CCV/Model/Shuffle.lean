/-
  C03 (v): the OPENED PERMUTATIONS of the sorting protocol.

  `RadixSortMPC::instantiate` (mpc/mpc_radix_sort.rs) composes sub-protocols; the only values it opens
  to all parties are the results of `shuffle_and_reveal(σ, π)`: the current sorting permutation σ
  shuffled by a secret-shared random permutation π.  Each opening must use a FRESH π that neither σ nor
  any earlier opening depends on (later values may depend on π in any way: `unshuffle` does).

  The harness exports the protocol graph (before the sub-protocols are instantiated) as a skeleton:
    hid i   — an input of the protocol graph (shares of the table, PRF keys)
    mask v  — a node `secret_shared_permutation(..)`: a fresh shared random permutation, tape variable v
    mul     — `shuffle_and_reveal(d, m)`, deps [d, m]: the opened value d ∘ m
    op tag  — any other node (an arbitrary function of its operands)
  and the list of `mul` nodes, LAST FIRST.  `freshOk` checks the discipline by a class analysis per
  opening mask (independent of it / of the form x·mask with x independent / anything else).
  Import-free.
-/
namespace CCV.Shuffle

inductive Kind where
  | hid (i : Nat)
  | mask (v : Nat)
  | mul
  | op (tag : Nat)
  deriving DecidableEq, Repr

structure Node where
  k : Kind
  deps : List Nat
  deriving Repr

/-- dependence on one mask: none; `x · mask` with x independent of it; other -/
inductive Cls where
  | indep | pos | bad
  deriving DecidableEq, Repr

def clsMul : Cls → Cls → Cls
  | .indep, .indep => .indep
  | .indep, .pos => .pos
  | _, _ => .bad

def clsNode (v : Nat) (env : List Cls) (n : Node) : Cls :=
  let d (j : Nat) : Cls := env.getD (n.deps.getD j 0) .bad
  match n.k with
  | .hid _ => .indep
  | .mask w => if w = v then .pos else .indep
  | .mul => if n.deps.length = 2 then clsMul (d 0) (d 1) else .bad
  | .op _ => if n.deps.all (fun j => env.getD j .bad == .indep) then .indep else .bad

def clsRun (v : Nat) : List Node → List Cls → List Cls
  | [], env => env
  | n :: g, env => clsRun v g (env ++ [clsNode v env n])

def wellScoped : List Node → Nat → Bool
  | [], _ => true
  | n :: g, k => n.deps.all (· < k) && wellScoped g (k + 1)

/-- certificate: (opening node, its mask variable), LAST opening FIRST -/
abbrev Cert := List (Nat × Nat)

def freshOkAux (g : List Node) : Cert → Bool
  | [] => true
  | (o, v) :: rest =>
    let cl := clsRun v g []
    cl.getD o .bad == .pos &&
    rest.all (fun (o', v') => cl.getD o' .bad == .indep && v' != v) &&
    freshOkAux g rest

/-- the `mul` nodes of the graph, last first -/
def mulNodes : List Node → Nat → List Nat → List Nat
  | [], _, acc => acc
  | n :: g, idx, acc => mulNodes g (idx + 1) (if n.k = .mul then idx :: acc else acc)

/-- the whole check: scoping, every `mul` node of the graph is certified (in order, last first), the
    discipline -/
def freshOk (g : List Node) (cert : Cert) : Bool :=
  wellScoped g 0 && cert.all (fun (o, _) => decide (o < g.length)) &&
  (cert.map (·.1) == mulNodes g 0 []) && freshOkAux g cert

end CCV.Shuffle
