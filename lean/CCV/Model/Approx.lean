/-
  Approximate numeric operations of ciphercore-base/src/ops: the INTEGER recurrences the
  instantiated graphs compute under the simple evaluator.  Import-free (linked into `ccv-model`).

  Values are the integers DENOTED by the stored residues: for a signed type of width `s` an
  `Int` in `[-2^(s-1), 2^(s-1))`, for an unsigned type in `[0, 2^s)`.  `Add/Subtract/Multiply`
  of the evaluator wrap modulo `2^s` (`wrap`); `Truncate(d)` is the plaintext truncation of
  simple_evaluator.rs:962-1003 (Rust `/` on the two's-complement value: toward zero).
  Everything is per array element (the graphs are element-wise).

  The piecewise-linear tables (`alphas`, `betas`, `left_fp`, `divisor`) and the two f64-derived
  constants of TaylorExponent are computed by float code at graph-construction time; they are
  INPUT to this model.
-/
namespace CCV.Approx

/-- the integer denoted by the residue of `x` modulo `2^s` in a signed (`sg = true`, two's
    complement) or unsigned type of width `s`. -/
def wrap (sg : Bool) (s : Nat) (x : Int) : Int :=
  if sg = true then (x + 2 ^ (s - 1)) % 2 ^ s - 2 ^ (s - 1) else x % 2 ^ s

/-- evaluator `Multiply` / `Subtract` / `Add` on denoted values. -/
def mul (sg : Bool) (s : Nat) (a b : Int) : Int := wrap sg s (a * b)
def sub (sg : Bool) (s : Nat) (a b : Int) : Int := wrap sg s (a - b)
def add (sg : Bool) (s : Nat) (a b : Int) : Int := wrap sg s (a + b)

/-- evaluator `Truncate(d)` on a denoted value: toward zero (for an unsigned type the value is
    non-negative and this is the floor). -/
def trunc (x d : Int) : Int := Int.tdiv x d

/-- the stored residue (`A2B` input) of a denoted value. -/
def residue (s : Nat) (x : Int) : Nat := (x % 2 ^ s).toNat

/-- `ops/utils.rs multiply_fixed_point`: `node1.multiply(node2).truncate(1 << precision)`. -/
def mulFixed (sg : Bool) (s : Nat) (a b : Int) (p : Nat) : Int := trunc (mul sg s a b) (2 ^ p)

/-! ### highest-bit extraction and initial approximations (ops/utils.rs) -/

/-- Rust `u64::next_power_of_two` (`0 ↦ 1`), by doubling with fuel. -/
def nextPow2Aux (n : Nat) : Nat → Nat → Nat
  | 0, p => p
  | fuel + 1, p => if n ≤ p then p else nextPow2Aux n fuel (2 * p)

def nextPow2 (n : Nat) : Nat := nextPow2Aux n 128 1

/-- `cumulative_or(data, n)` entry `j`: after `log2(pow2)` doubling steps entry `j` is the OR of the
    (zero-padded) bits `j .. j + pow2 - 1` of the `s`-bit residue `u`, `pow2 = n.next_power_of_two()`. -/
def cumOr (u pow2 j : Nat) : Bool := decide ((u / 2 ^ j) % 2 ^ pow2 ≠ 0)

/-- `highest_one_bit_binary[j] = cum_or[j] + cum_or[j+1]` (addition of bits = xor). -/
def hob (u pow2 j : Nat) : Bool := (cumOr u pow2 j) != (cumOr u pow2 (j + 1))

/-- `Σ_{i<n} result[i]·2^i` with `result[i] = highest_one_bit_binary[c-1-i]`
    (`inverse_initial_approximation`: vector of bits, zero-extended, `b2a`). -/
def initSum (h : Nat → Bool) (c : Nat) : Nat → Nat
  | 0 => 0
  | n + 1 => initSum h c n + (if h (c - 1 - n) = true then 2 ^ n else 0)

/-- `inverse_initial_approximation(context, t, c)` applied to the denoted value `d`
    (type width `s`): `2^(c-1-h)` when the highest set bit of `d` is `h < c`. -/
def initInv (s c : Nat) (d : Int) : Int :=
  let u := residue s d
  (initSum (hob u (nextPow2 c)) c c : Nat)

/-- `inverse_sqrt_initial_approximation`: `result[i] = hob[2c-2i-1] + hob[2c-2i-2]` for `i < c`. -/
def initSqrtSum (h : Nat → Bool) (c : Nat) : Nat → Nat
  | 0 => 0
  | n + 1 => initSqrtSum h c n +
      (if (h (2 * c - 2 * n - 1) != h (2 * c - 2 * n - 2)) = true then 2 ^ n else 0)

def initSqrt (s c : Nat) (d : Int) : Int :=
  let u := residue s d
  (initSqrtSum (hob u (nextPow2 (2 * c))) c c : Nat)

/-! ### NewtonInversion (ops/newton_inversion.rs:57-117) -/

/-- the constant `1 << (cap + 1)` as the code builds it: the literal is an `i32`, the shift
    amount is taken modulo 32 in release builds and `1 << 31` is `i32::MIN`; it is then stored in
    the 64-bit type. -/
def i32Shl1 (k : Nat) : Int := if k % 32 = 31 then -(2 ^ 31) else 2 ^ (k % 32)

def newtonConst (sg : Bool) (s c : Nat) : Int := wrap sg s (i32Shl1 (c + 1))

/-- one iteration: `mult = 2^(c+1) - x*d; x' = multiply_fixed_point(mult, x, c)`. -/
def newtonStep (sg : Bool) (s c : Nat) (d x : Int) : Int :=
  mulFixed sg s (sub sg s (newtonConst sg s c) (mul sg s x d)) x c

def newtonIter (sg : Bool) (s c : Nat) (d : Int) : Nat → Int → Int
  | 0, x => x
  | n + 1, x => newtonIter sg s c d n (newtonStep sg s c d x)

/-- `NewtonInversion { iterations, denominator_cap_2k = c }` on divisor `d`, with the optional
    supplied initial approximation.  (`cap = 0` is rejected by the code while it builds the
    unused initial-approximation graph: `none`.) -/
def newton (sg : Bool) (s c iters : Nat) (d : Int) (init : Option Int) : Option Int :=
  if c = 0 then none else
  let x0 := match init with
    | some g => g
    | none => initInv s c d
  some (newtonIter sg s c d iters x0)

/-! ### InverseSqrt (ops/inverse_sqrt.rs:60-135) -/

/-- `3 << (cap - 1)` on an `i32` literal (bits shifted out are lost, bit 31 is the sign). -/
def i32Shl3 (k : Nat) : Int :=
  let v : Int := (3 * 2 ^ (k % 32)) % 2 ^ 32
  if 2 ^ 31 ≤ v then v - 2 ^ 32 else v

def sqrtConst (sg : Bool) (s c : Nat) : Int := wrap sg s (i32Shl3 (c - 1))

/-- `ax2 = d*x*x; ax2_norm = ax2 >> (c+1); mult = 3·2^(c-1) - ax2_norm; x' = (mult*x) >> c`. -/
def sqrtStep (sg : Bool) (s c : Nat) (d x : Int) : Int :=
  let ax2 := mul sg s (mul sg s d x) x
  let ax2n := trunc ax2 (2 ^ (c + 1))
  mulFixed sg s (sub sg s (sqrtConst sg s c) ax2n) x c

def sqrtIter (sg : Bool) (s c : Nat) (d : Int) : Nat → Int → Int
  | 0, x => x
  | n + 1, x => sqrtIter sg s c d n (sqrtStep sg s c d x)

/-- `InverseSqrt`: `cap` outside `2..31` is rejected. -/
def inverseSqrt (sg : Bool) (s c iters : Nat) (d : Int) (init : Option Int) : Option Int :=
  if 31 < c ∨ c ≤ 1 then none else
  let x0 := match init with
    | some g => g
    | none => initSqrt s c d
  some (sqrtIter sg s c d iters x0)

/-! ### GoldschmidtDivision (ops/goldschmidt_division.rs:59-143) -/

/-- `w = 2^(c+1) - b; a = (a*w) >> c; b = (b*w) >> c` (the constant is built from a `u128`). -/
def goldStep (sg : Bool) (s c : Nat) (ab : Int × Int) : Int × Int :=
  let w := sub sg s (wrap sg s (2 ^ (c + 1))) ab.2
  (mulFixed sg s ab.1 w c, mulFixed sg s ab.2 w c)

def goldIter (sg : Bool) (s c : Nat) : Nat → Int × Int → Int × Int
  | 0, ab => ab
  | n + 1, ab => goldIter sg s c n (goldStep sg s c ab)

/-- `GoldschmidtDivision { iterations, denominator_cap_2k = c }`: `iterations - 1` loop rounds
    (`iterations = 0` underflows in the code and is not modelled: Nat subtraction gives 0 here). -/
def goldschmidt (sg : Bool) (s c iters : Nat) (a d : Int) (init : Option Int) : Option Int :=
  if c = 0 then none else
  let w0 := match init with
    | some g => g
    | none => initInv s c d
  some (goldIter sg s c (iters - 1) (mul sg s a w0, mul sg s d w0)).1

/-! ### FixedMultiply (ops/fixed_precision/fixed_multiply.rs:49-140), INT64 -/

def fixedMul (s : Nat) (a b : Int) (p : Nat) : Int := mulFixed true s a b p

/-- `is_multiplication_safe_from_overflow`: "if the MSB is set, flip all bits" -/
def flipNeg (a : Int) : Nat := if a < 0 then (-a - 1).toNat else a.toNat

/-- no pair of set bits `(i, j)` of the flipped operands with `i + j ≥ 56`; since the set bits
    of a natural are dominated by its highest one, this is `log2 x + log2 y < 56`. -/
def mulSafe (a b : Int) : Bool :=
  let x := flipNeg a
  let y := flipNeg b
  x == 0 || y == 0 || decide (Nat.log2 x + Nat.log2 y < 56)

/-- debug mode: `Assert` fails the evaluation when the check is violated. -/
def fixedMulDebug (s : Nat) (a b : Int) (p : Nat) : Option Int :=
  if mulSafe a b = true then some (fixedMul s a b p) else none

/-! ### piecewise-linear approximation (ops/pwl/approx_pointwise.rs:21-220) -/

/-- `tree_retrieve(bits, vals)`: bottom-up, level `i` uses bit `i` (least significant first) to
    choose between the even and the odd entry of every adjacent pair:
    `data = (odd - even)·bit + even`. -/
def treeLevel (sg : Bool) (s : Nat) (bit : Bool) : List Int → List Int
  | e :: o :: rest =>
    add sg s (if bit = true then sub sg s o e else 0) e :: treeLevel sg s bit rest
  | _ => []

def treeRetrieve (sg : Bool) (s : Nat) (idx : Nat) : Nat → List Int → Int
  | 0, vals => vals.headD 0
  | n + 1, vals => treeRetrieve sg s (idx / 2) n (treeLevel sg s (idx % 2 == 1) vals)

structure Pwl where
  /-- `config.log_buckets` -/
  logBuckets : Nat
  precision : Nat
  /-- `(left * 2^precision) as i64` -/
  leftFp : Int
  /-- Truncate divisor that maps `[left,right]` onto `[0, 2^log_buckets]` -/
  divisor : Int
  /-- `2^log_buckets + 2` slopes / intercepts: entry 0 is the left outside bucket, the last one
      the right outside bucket -/
  alphas : List Int
  betas : List Int

/-- `all_vals = x·alphas + betas` (wrapping). -/
def pwlVals (sg : Bool) (s : Nat) (t : Pwl) (x : Int) : List Int :=
  List.zipWith (fun a b => add sg s (mul sg s x a) b) t.alphas t.betas

/-- index of the bucket selected for `x`: `0` = left outside, `2^L + 1` = right outside,
    `1 + (scaled mod 2^L)` otherwise, where `scaled = Truncate(x - left_fp, divisor)`. -/
def pwlScaled (sg : Bool) (s : Nat) (t : Pwl) (x : Int) : Int :=
  trunc (sub sg s x t.leftFp) t.divisor

def pwlIsLeft (s : Nat) (sc : Int) : Bool := decide (2 ^ (s - 1) ≤ residue s sc)

/-- any of the bits `L .. s-2` set, and MSB not set. -/
def pwlIsRight (s L : Nat) (sc : Int) : Bool :=
  decide ((residue s sc % 2 ^ (s - 1)) / 2 ^ L ≠ 0) && !(pwlIsLeft s sc)

/-- `create_approximation` evaluated at `x` (only signed types are accepted by the code; `sg` is
    kept as a parameter for uniformity). -/
def pwlEval (sg : Bool) (s : Nat) (t : Pwl) (x : Int) : Int :=
  let vals := pwlVals sg s t x
  let L := t.logBuckets
  let sc := pwlScaled sg s t x
  let low := residue s sc % 2 ^ L
  let main := treeRetrieve sg s low L ((vals.drop 1).take (2 ^ L))
  let isLeft := pwlIsLeft s sc
  let isRight := pwlIsRight s L sc
  let isMain := !isLeft && !isRight
  let r := add sg s (add sg s (if isMain then main else 0) (if isLeft then vals.headD 0 else 0))
    (if isRight then vals.getD (t.alphas.length - 1) 0 else 0)
  trunc r (2 ^ t.precision)

/-! ### TaylorExponent (ops/taylor_exponent.rs:52-180), INT64 -/

/-- `(31 - p).log2().ceil()` for `p ≤ 15` -/
def ceilLog2 (n : Nat) : Nat := if n ≤ 1 then 0 else Nat.log2 (n - 1) + 1

def bitOf (u i : Nat) : Bool := (u / 2 ^ i) % 2 == 1

/-- `Π_{j<m} (bit_{p+j} ? 2^(2^j) : 1)` with wrapping multiplications. -/
def expInteger (s p : Nat) (u : Nat) : Nat → Int
  | 0 => 1
  | j + 1 => mul true s (expInteger s p u j) (if bitOf u (p + j) then 2 ^ (2 ^ j) else 1)

/-- the Taylor loop: `acc += coef; coef = (coef*y) / ((i+1)·2^p)` for `i < terms-1`. -/
def taylorLoop (s p : Nat) (y : Int) (terms : Nat) : Nat → Nat → Int → Int → Int
  | 0, _, _, acc => acc
  | fuel + 1, i, coef, acc =>
    let acc' := add true s acc coef
    if i + 1 < terms then
      taylorLoop s p y terms fuel (i + 1) (trunc (mul true s coef y) (((i : Int) + 1) * 2 ^ p)) acc'
    else taylorLoop s p y terms fuel (i + 1) coef acc'

/-- `TaylorExponent { taylor_terms, fixed_precision_points = p }`; `oneOverLn2` and `ln2` are the
    two constants the code derives with f64 (`(2^p / ln 2) as u64`, `(ln 2 · 2^p) as u64`). -/
def taylorExp (s terms p : Nat) (oneOverLn2 ln2 : Int) (arg : Int) : Int :=
  let x := mulFixed true s arg oneOverLn2 p
  let u := residue s x
  let msb := bitOf u (s - 1)
  let m := ceilLog2 (31 - p)
  let ei := expInteger s p u m
  let ef : Int :=
    if p = 0 then 1 else
      let xfrac : Int := (u % 2 ^ p : Nat)
      let y := mulFixed true s xfrac ln2 p
      taylorLoop s p y terms terms 0 (2 ^ p) 0
  let e := mul true s ef ei
  let inv := trunc e (2 ^ (2 ^ m))
  let r := add true s e (if msb then sub true s inv e else 0)
  if -10 * 2 ^ p ≤ x then r else 0

end CCV.Approx
