import CCV.Model.Scalar
/-
  Model of ciphercore-base/src/bytes.rs (byte codecs) and of the array part of data_values.rs
  (`Value::from_flattened_array`, `to_flattened_array_u64/u128`, `check_type` for arrays).

  Bytes are `Nat`s < 256.  Native Rust integers are modelled as unbounded `Int` together with
  the `as u64` / `as u128` casts (two's complement wrap), because the properties are about
  residues modulo 2^w.
-/
namespace CCV.Bytes
open CCV

/-- `x as u128` for a native integer (two's-complement wrap) — `as_u128`. -/
def asU128 (x : Int) : Nat := (x % ((2 ^ 128 : Nat) : Int)).toNat
/-- `x as u64` — `as_u64`. -/
def asU64 (x : Int) : Nat := (x % ((2 ^ 64 : Nat) : Int)).toNat

/-- first `k` little-endian bytes of `n` (`to_le_bytes().iter().take(k)`). -/
def leBytes (n : Nat) : Nat → List Nat
  | 0 => []
  | k + 1 => (n % 256) :: leBytes (n / 256) k

/-- `res += (x_i as uN) << (8 i)` over a slice. -/
def fromLE : List Nat → Nat
  | [] => 0
  | b :: bs => b + 256 * fromLE bs

/-- `x_byte += bit << i` over a chunk of at most 8 bits. -/
def packBits : List Nat → Nat
  | [] => 0
  | b :: bs => b + 2 * packBits bs

/-- `x.chunks(8)` -/
def chunks8 (xs : List α) : List (List α) :=
  if h : xs = [] then [] else
    (xs.take 8) :: chunks8 (xs.drop 8)
termination_by xs.length
decreasing_by
  cases xs with
  | nil => exact absurd rfl h
  | cons a t => simp [List.length_drop]; omega

/-- a native integer is accepted as a bit iff it is 0 or 1 (`try_into::<u8>` then `> 1` test). -/
def isBit (x : Int) : Bool := x == 0 || x == 1

/-- BIT branch shared by `vec_to_bytes` and `vec_u64_to_bytes`. -/
def bitsToBytes (xs : List Int) : Except String (List Nat) :=
  if xs.all isBit then
    .ok ((chunks8 xs).map (fun c => packBits (c.map Int.toNat)))
  else .error "Input is not a bit"

/-- `vec_to_bytes`: every native integer is cast with `as_u128`, the first `byteLen` little-endian
    bytes are kept. -/
def vecToBytes (st : ST) (xs : List Int) : Except String (List Nat) :=
  match st with
  | .bit => bitsToBytes xs
  | _ => .ok (xs.flatMap (fun x => leBytes (asU128 x) st.byteLen))

/-- `as_u64` on a value `x` of the native type with `nb` bits (`ns` = signed) succeeds iff `x` or
    its bitwise complement *in that type* (`!x`) fits in `u64`. -/
def fitsU64 (nb : Nat) (ns : Bool) (x : Int) : Bool :=
  let c : Int := if ns then -x - 1 else ((2 ^ nb : Nat) : Int) - 1 - x
  (decide (0 ≤ x) && decide (x < (2 ^ 64 : Int))) || (decide (0 ≤ c) && decide (c < (2 ^ 64 : Int)))

/-- one element of `vec_u64_to_bytes`: the first `min byteLen 8` bytes of `as_u64 x`, then (for the
    128-bit scalar types) padding up to `byteLen`: zeros when `x.try_into::<u64>()` succeeds,
    `0xff` otherwise. -/
def elemU64ToBytes (bl : Nat) (x : Int) : List Nat :=
  leBytes (asU64 x) (min bl 8) ++
    List.replicate (bl - 8) (if decide (0 ≤ x) && decide (x < (2 ^ 64 : Int)) then 0 else 255)

/-- `vec_u64_to_bytes` on a slice of the native type (`nb`, `ns`). -/
def vecU64ToBytes (nb : Nat) (ns : Bool) (st : ST) (xs : List Int) : Except String (List Nat) :=
  match st with
  | .bit => bitsToBytes xs
  | _ =>
    if xs.all (fitsU64 nb ns) then .ok (xs.flatMap (elemU64ToBytes st.byteLen))
    else .error "The integer of this size is not supported"

/-- the eight bits of a byte, LSB first: `(byte >> i) & 1`, i = 0..7 -/
def unpackByte (b : Nat) : List Nat :=
  [b % 2, b / 2 % 2, b / 4 % 2, b / 8 % 2, b / 16 % 2, b / 32 % 2, b / 64 % 2, b / 128 % 2]

/-- sign padding as in `vec_u64_from_bytes` / `vec_u128_from_bytes`:
    `if sign_bit == 1 { res |= MAX ^ ((1 << 8·bl) - 1) }`. The mask is `2^width - 2^(8 bl)`. -/
def signPad (width : Nat) (st : ST) (res : Nat) : Nat :=
  let bl := st.byteLen
  if st.signed = true ∧ bl * 8 < width then
    if res / 2 ^ (bl * 8 - 1) = 1 then res ||| (2 ^ width - 2 ^ (bl * 8)) else res
  else res

/-- `x.chunks_exact(k)` for `k > 0` when `k ∣ x.length` (fuel = number of chunks). -/
def chunksExact (k : Nat) : Nat → List Nat → List (List Nat)
  | 0, _ => []
  | n + 1, xs => xs.take k :: chunksExact k n (xs.drop k)

/-- `vec_u64_from_bytes` (width 64) / `vec_u128_from_bytes` (width 128): each chunk of `byteLen`
    bytes is summed little-endian (only the first `width/8` bytes fit the accumulator), then
    sign-padded. -/
def vecFromBytesW (width : Nat) (st : ST) (bytes : List Nat) : Except String (List Nat) :=
  match st with
  | .bit => .ok (bytes.flatMap unpackByte)
  | _ =>
    let bl := st.byteLen
    if bytes.length % bl != 0 then .error "Incompatible vector and scalar type"
    else .ok ((chunksExact bl (bytes.length / bl) bytes).map
      (fun c => signPad width st (fromLE (c.take (width / 8)))))

def vecU64FromBytes := vecFromBytesW 64
def vecU128FromBytes := vecFromBytesW 128

/-- number of elements of a shape -/
def numel (shape : List Nat) : Nat := shape.foldl (· * ·) 1

/-- `check_type` for scalar/array types: byte length = ⌈bits/8⌉. -/
def checkArrayType (bytesLen : Nat) (shape : List Nat) (st : ST) : Bool :=
  bytesLen == (numel shape * st.bits + 7) / 8

/-- `Value::to_flattened_array_u128` on a byte value of array type `(shape, st)`. -/
def toFlatU128 (bytes : List Nat) (shape : List Nat) (st : ST) : Except String (List Nat) :=
  if !checkArrayType bytes.length shape st then .error "Type and value mismatch"
  else match vecU128FromBytes st bytes with
    | .error e => .error e
    | .ok r => .ok (if st == .bit then r.take (numel shape) else r)

/-- `to_flattened_array_u64` = `to_flattened_array_u128` then `as u64`. -/
def toFlatU64 (bytes : List Nat) (shape : List Nat) (st : ST) : Except String (List Nat) :=
  match toFlatU128 bytes shape st with
  | .error e => .error e
  | .ok r => .ok (r.map (· % 2 ^ 64))

end CCV.Bytes
