import CCV.Model.Mask
/-
  C03 (ii), output recipients: the reveal messages.

  An output recipient receives, besides masked messages, the share(s) of the output it does not hold
  (and, for further recipients, the forwarded result).  Such a message `r` is not masked; instead it is
  DETERMINED by the recipient's output and the rest of its view:  output = r + W  where W is computed
  from nodes the recipient can derive from its view (its own inputs, the masks it knows, and the
  messages delivered to it).

  `viewRun msgs`   marks the nodes whose value is determined by the view (leaves: own inputs, known
                   masks, message nodes).
  `revRun r view`  classifies each node as  determined-by-view | r + determined-by-view | other.
  `revOk`          the output node is `r + determined-by-view` for every reveal message r.
  Import-free.
-/
namespace CCV.Mask

/-- determined by the view: a message node, or an operation on determined nodes (never a hidden input
    or an unknown tape variable on its own) -/
def viewNode (msgs : List Nat) (idx : Nat) (env : List Bool) (n : Node) : Bool :=
  msgs.contains idx ||
  (match n.k with
   | .hid _ => false
   | .tapeU _ => false
   | _ => n.deps.all (fun j => env.getD j false))

def viewRun (msgs : List Nat) : List Node → List Bool → List Bool
  | [], env => env
  | n :: g, env => viewRun msgs g (env ++ [viewNode msgs env.length env n])

inductive RCls where
  | det    -- determined by the view
  | plusR  -- r + (determined by the view)
  | other
  deriving DecidableEq, Repr

def rclsAdd : RCls → RCls → RCls
  | .det, .det => .det
  | .plusR, .det => .plusR
  | .det, .plusR => .plusR
  | _, _ => .other

/-- class of node `idx`; `view` = result of `viewRun`; `r` = the reveal message node -/
def rclsNode (r : Nat) (view : List Bool) (idx : Nat) (env : List RCls) (n : Node) : RCls :=
  if idx = r then .plusR
  else if view.getD idx false then .det
  else
    let d (j : Nat) : RCls := env.getD (n.deps.getD j 0) .other
    match n.k with
    | .nop => if n.deps.length = 1 then d 0 else .other
    | .add => if n.deps.length = 2 then rclsAdd (d 0) (d 1) else .other
    | .sub => if n.deps.length = 2 then (match d 0, d 1 with | .plusR, .det => .plusR | .det, .det => .det | _, _ => .other) else .other
    | _ => .other

def rclsRun (r : Nat) (view : List Bool) : List Node → List RCls → List RCls
  | [], env => env
  | n :: g, env => rclsRun r view g (env ++ [rclsNode r view env.length env n])

/-- every reveal message `r` satisfies: output node `o` = r + (determined by the view, where the view
    consists of the message nodes `msgs`) -/
def revOk (g : List Node) (msgs : List Nat) (o : Nat) (revs : List Nat) : Bool :=
  wellScoped g 0 && decide (o < g.length) &&
  revs.all (fun r => decide (r < g.length) &&
    (rclsRun r (viewRun msgs g []) g []).getD o .other == .plusR)

end CCV.Mask
