/-
  Three-party execution of a compiled protocol graph and the static *holder analysis* (C02).

  IR (exported by the harness from `compile_context` output, see harness/src/c02.rs):
  a graph is a list of nodes in creation order; a node has a kind, the indices of its
  dependencies (all smaller than its own index) and its `Send(s, r)` annotations in order.

  Values are trees (`Val`): atoms, or tuples/vectors encoded as cons cells.  The semantics of
  every ordinary operation is a *parameter* `sem tag args`, so everything proved here holds for
  whatever the evaluator does, as long as it is a deterministic function of the argument values
  (PRF is such a function of its key; `Random` is not — it is a separate kind).

  Import-free (linked into the model driver).
-/
namespace CCV.Know

/-- value trees; tuples and vectors are right-nested cons cells ending in `nil` -/
inductive Val (A : Type) where
  | atom (a : A)
  | nil
  | cons (h t : Val A)
  deriving Repr

/-- a set of parties {0,1,2} -/
structure PS where
  p0 : Bool
  p1 : Bool
  p2 : Bool
  deriving DecidableEq, Repr

namespace PS
def all : PS := ⟨true, true, true⟩
def none : PS := ⟨false, false, false⟩
def mem (p : Nat) (s : PS) : Bool :=
  match p with
  | 0 => s.p0 | 1 => s.p1 | 2 => s.p2 | _ => false
def single (p : Nat) : PS := ⟨p == 0, p == 1, p == 2⟩
def inter (a b : PS) : PS := ⟨a.p0 && b.p0, a.p1 && b.p1, a.p2 && b.p2⟩
def insert (p : Nat) (s : PS) : PS := ⟨s.p0 || p == 0, s.p1 || p == 1, s.p2 || p == 2⟩
def erase (p : Nat) (s : PS) : PS := ⟨s.p0 && p != 0, s.p1 && p != 1, s.p2 && p != 2⟩
def subset (a b : PS) : Bool := (!a.p0 || b.p0) && (!a.p1 || b.p1) && (!a.p2 || b.p2)
end PS

/-- holder trees: for every component of a value, the set of parties that hold it -/
inductive HT where
  | leaf (m : PS)
  | nil
  | cons (h t : HT)
  deriving DecidableEq, Repr

inductive Kind where
  /-- i-th input of the compiled graph -/
  | input (i : Nat)
  /-- a fresh random draw (each party draws its own) ; `r` = index among Random nodes -/
  | random (r : Nat)
  /-- CreateTuple / CreateNamedTuple / CreateVector -/
  | mkTuple
  /-- TupleGet j / NamedTupleGet (resolved to its position) -/
  | tupleGet (j : Nat)
  | nop
  /-- any other operation: a deterministic function of its arguments, identified by a tag -/
  | op (tag : Nat)
  deriving DecidableEq, Repr

structure Node where
  k : Kind
  deps : List Nat
  sends : List (Nat × Nat)
  deriving Repr

variable {A : Type}

def mkTup : List (Val A) → Val A
  | [] => .nil
  | v :: vs => .cons v (mkTup vs)

def nthV : Nat → Val A → Val A
  | 0, .cons h _ => h
  | j + 1, .cons _ t => nthV j t
  | _, v => v

/-- value of a node for one party, given the values of earlier nodes `env`;
    `inp i` = what this party supplies for input i, `rnd r` = what it uses for Random node r -/
def evalNode (sem : Nat → List (Val A) → Val A) (inp : Nat → Val A) (rnd : Nat → Val A)
    (env : List (Val A)) (n : Node) : Val A :=
  let args := n.deps.map (fun d => env.getD d .nil)
  match n.k with
  | .input i => inp i
  | .random r => rnd r
  | .mkTuple => mkTup args
  | .tupleGet j => nthV j (args.headD .nil)
  | .nop => args.headD .nil
  | .op tag => sem tag args

/-- one-evaluator (global) run -/
def evalG (sem : Nat → List (Val A) → Val A) (inp : Nat → Val A) (rnd : Nat → Val A) :
    List Node → List (Val A) → List (Val A)
  | [], env => env
  | n :: g, env => evalG sem inp rnd g (env ++ [evalNode sem inp rnd env n])

/-- effect of the send markers of a node on the per-party value of that node -/
def applySends : List (Nat × Nat) → (Nat → Val A) → (Nat → Val A)
  | [], v => v
  | (s, r) :: rest, v => applySends rest (fun p => if p = r then v s else v p)

/-- three-party run: `st p` is party p's environment; every party evaluates every node from its own
    data (`inp p`, `tape p`), then `Send(s, r)` replaces r's value by s's, in annotation order -/
def exec3 (sem : Nat → List (Val A) → Val A) (inp : Nat → Nat → Val A) (tape : Nat → Nat → Val A) :
    List Node → (Nat → List (Val A)) → (Nat → List (Val A))
  | [], st => st
  | n :: g, st =>
    let v := applySends n.sends (fun p => evalNode sem (inp p) (tape p) (st p) n)
    exec3 sem inp tape g (fun p => st p ++ [v p])

/- ---------------- holder analysis ---------------- -/

def meet : HT → PS
  | .leaf m => m
  | .nil => PS.all
  | .cons h t => PS.inter (meet h) (meet t)

def mkHT : List HT → HT
  | [] => .nil
  | t :: ts => .cons t (mkHT ts)

def nthHT : Nat → HT → HT
  | 0, .cons h _ => h
  | j + 1, .cons _ t => nthHT j t
  | _, .leaf m => .leaf m
  | _, .nil => .nil

def sendHT (s r : Nat) : HT → HT
  | .leaf m => .leaf (if PS.mem s m then PS.insert r m else PS.erase r m)
  | .nil => .nil
  | .cons h t => .cons (sendHT s r h) (sendHT s r t)

def applySendsHT : List (Nat × Nat) → HT → HT
  | [], t => t
  | (s, r) :: rest, t => applySendsHT rest (sendHT s r t)

/-- transfer function of the analysis (without the send markers), over an arbitrary lookup of earlier
    holder trees.  `inStat i` = holder tree of input i (from the owner vector), `owner r` = the party
    whose draw is "the" value of Random node r (an untrusted certificate). -/
def hBaseF (inStat : Nat → HT) (owner : Nat → Nat) (look : Nat → HT) (n : Node) : HT :=
  let args := n.deps.map look
  match n.k with
  | .input i => inStat i
  | .random r => .leaf (PS.single (owner r))
  | .mkTuple => mkHT args
  | .tupleGet j => nthHT j (args.headD (.leaf PS.none))
  | .nop => args.headD (.leaf PS.none)
  | .op _ => .leaf (args.foldl (fun acc t => PS.inter acc (meet t)) PS.all)

def hBase (inStat : Nat → HT) (owner : Nat → Nat) (henv : List HT) (n : Node) : HT :=
  hBaseF inStat owner (fun d => henv.getD d (.leaf PS.none)) n

def hNode (inStat : Nat → HT) (owner : Nat → Nat) (henv : List HT) (n : Node) : HT :=
  applySendsHT n.sends (hBase inStat owner henv n)

def hRun (inStat : Nat → HT) (owner : Nat → Nat) : List Node → List HT → List HT
  | [], henv => henv
  | n :: g, henv => hRun inStat owner g (henv ++ [hNode inStat owner henv n])

/-- dependencies refer to earlier nodes only -/
def wellScoped : List Node → Nat → Bool
  | [], _ => true
  | n :: g, k => n.deps.all (· < k) && wellScoped g (k + 1)

/-- the C02 check for an output revealed to the parties in `outs` (a whole-value requirement) -/
def okRevealed (inStat : Nat → HT) (owner : Nat → Nat) (g : List Node) (out : Nat) (outs : PS) : Bool :=
  wellScoped g 0 && PS.subset outs (meet ((hRun inStat owner g []).getD out (.leaf PS.none)))

/-- the C02 check for a secret-shared output: party i must hold components i and i+1 -/
def okShared (inStat : Nat → HT) (owner : Nat → Nat) (g : List Node) (out : Nat) : Bool :=
  let t := (hRun inStat owner g []).getD out (.leaf PS.none)
  wellScoped g 0 &&
  PS.mem 0 (meet (nthHT 0 t)) && PS.mem 0 (meet (nthHT 1 t)) &&
  PS.mem 1 (meet (nthHT 1 t)) && PS.mem 1 (meet (nthHT 2 t)) &&
  PS.mem 2 (meet (nthHT 2 t)) && PS.mem 2 (meet (nthHT 0 t))

/-- holder tree of an input from its ownership status: 0,1,2 = party; 3 = public; 4 = shared -/
def statusHT : Nat → HT
  | 0 => .leaf (PS.single 0)
  | 1 => .leaf (PS.single 1)
  | 2 => .leaf (PS.single 2)
  | 3 => .leaf PS.all
  | _ => .cons (.leaf ⟨true, false, true⟩) (.cons (.leaf ⟨true, true, false⟩) (.cons (.leaf ⟨false, true, true⟩) .nil))

/- ---------------- the same analysis over a binary trie (O(log n) lookups for kernel evaluation) ---------------- -/

/-- binary trie indexed by the bits of the key, least significant first, fixed depth -/
inductive Trie (α : Type) where
  | leaf
  | node (v : Option α) (l r : Trie α)

namespace Trie
variable {α : Type}

def get : Nat → Trie α → Nat → Option α
  | _, .leaf, _ => none
  | 0, .node v _ _, _ => v
  | d + 1, .node _ l r, k => if k % 2 = 0 then get d l (k / 2) else get d r (k / 2)

def set : Nat → Trie α → Nat → α → Trie α
  | 0, .leaf, _, a => .node (some a) .leaf .leaf
  | 0, .node _ l r, _, a => .node (some a) l r
  | d + 1, .leaf, k, a =>
    if k % 2 = 0 then .node none (set d .leaf (k / 2) a) .leaf else .node none .leaf (set d .leaf (k / 2) a)
  | d + 1, .node v l r, k, a =>
    if k % 2 = 0 then .node v (set d l (k / 2) a) r else .node v l (set d r (k / 2) a)

end Trie

/-- depth of the trie: graphs of up to 2^20 nodes -/
def trieDepth : Nat := 20

def hNodeT (inStat : Nat → HT) (owner : Nat → Nat) (env : Trie HT) (n : Node) : HT :=
  applySendsHT n.sends
    (hBaseF inStat owner (fun d => (Trie.get trieDepth env d).getD (.leaf PS.none)) n)

/-- trie-based run: `i` = index of the next node -/
def hRunT (inStat : Nat → HT) (owner : Nat → Nat) : List Node → Nat → Trie HT → Trie HT
  | [], _, env => env
  | n :: g, i, env => hRunT inStat owner g (i + 1) (Trie.set trieDepth env i (hNodeT inStat owner env n))

def okRevealedT (inStat : Nat → HT) (owner : Nat → Nat) (g : List Node) (out : Nat) (outs : PS) : Bool :=
  wellScoped g 0 && decide (g.length ≤ 2 ^ trieDepth) && decide (out < g.length) &&
  PS.subset outs (meet ((Trie.get trieDepth (hRunT inStat owner g 0 .leaf) out).getD (.leaf PS.none)))

def okSharedT (inStat : Nat → HT) (owner : Nat → Nat) (g : List Node) (out : Nat) : Bool :=
  let t := (Trie.get trieDepth (hRunT inStat owner g 0 .leaf) out).getD (.leaf PS.none)
  wellScoped g 0 && decide (g.length ≤ 2 ^ trieDepth) && decide (out < g.length) &&
  PS.mem 0 (meet (nthHT 0 t)) && PS.mem 0 (meet (nthHT 1 t)) &&
  PS.mem 1 (meet (nthHT 1 t)) && PS.mem 1 (meet (nthHT 2 t)) &&
  PS.mem 2 (meet (nthHT 2 t)) && PS.mem 2 (meet (nthHT 0 t))

end CCV.Know
