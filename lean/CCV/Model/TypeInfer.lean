import CCV.Model.TypedValue
/-
  Model of the typing rules of ciphercore (C09):
  * `TypeInferenceWorker::process_node` (ciphercore-base/src/type_inference.rs:619-1685) with its helpers
    `mixed_multiply_inference`, `dot_type_inference`, `matmul_type_inference`, `transpose_shape`,
    `gemm_type_inference`, `a2b_type_inference`, `b2a_type_inference`, `flatten_type`,
    `can_atomic_reshape`, `get_number_of_node_dependencies`, `register_result`;
  * `broadcast_shapes`, `broadcast_pair`, `broadcast_arrays` (broadcast.rs);
  * `get_clean_slice`, `normalize_subarray`, `get_slice_shape_1d`, `get_slice_shape`,
    `slice_1d_index`, `slice_index` (slices.rs).

  Types are `CCV.TV.Ty` (the model of `Type` shared with C13: `is_valid`, `check_type`).
  `u64`/`i64` quantities are unbounded `Nat`/`Int`: wrap-around of `u64` products / `i64` sums is
  not modelled (the generators stay far below 2^63).  Not modelled: Join, JoinWithColumnMasks,
  Shard, ShardWithColumnMasks, Custom, the node-size limits of `add_node_internal`.
-/
namespace CCV.TI
open CCV CCV.TV

/-- `SliceElement` (graphs.rs). -/
inductive SliceEl where
  | single (i : Int)
  | sub (b e s : Option Int)
  | ellipsis
  deriving Repr, Inhabited, DecidableEq

/-- `Operation` (graphs.rs) restricted to the modelled primitive operations.  Parameters that do
    not influence the type (PRF iv, Print/Assert message) are dropped; `call`/`iterate` carry the
    signature (input types, output type) of the finalized callee graph. -/
inductive Op where
  | input (t : Ty) | zeros (t : Ty) | ones (t : Ty)
  | add | subtract | multiply | mixedMultiply | dot | matmul | gemm (ta tb : Bool)
  | truncate (d : Nat)
  | sum (axes : List Nat) | cumSum (axis : Nat) | permuteAxes (axes : List Nat)
  | get (idx : List Nat) | getSlice (sl : List SliceEl) | reshape (t : Ty) | nop
  | random (t : Ty) | prf (t : Ty) | permutationFromPRF (n : Nat)
  | stack (outer : List Nat) | concatenate (axis : Nat)
  | constant (t : Ty) (v : Val)
  | a2b | b2a (st : ST)
  | createTuple | createNamedTuple (names : List String) | createVector (t : Ty)
  | tupleGet (i : Nat) | namedTupleGet (name : String) | vectorGet | zip | repeat_ (n : Nat)
  | call (ins : List Ty) (out : Ty) | iterate (ins : List Ty) (out : Ty)
  | arrayToVector | vectorToArray
  | randomPermutation (n : Nat) | gather (axis : Nat) | cuckooHash | inversePermutation
  | cuckooToPermutation | decomposeSwitchingMap (n : Nat) | segmentCumSum
  | applyPermutation (inv : Bool) | sort (key : String)
  | print | assert
  deriving Inhabited

/-! ### generic loop helper -/

/-- `for j in 0..k { out.push(f(i + j)?) }` -/
def loopE (f : Nat → Except String β) : Nat → Nat → Except String (List β)
  | _, 0 => .ok []
  | i, k + 1 =>
    match f i with
    | .error e => .error e
    | .ok b =>
      match loopE f (i + 1) k with
      | .error e => .error e
      | .ok bs => .ok (b :: bs)

def prod : List Nat → Nat
  | [] => 1
  | d :: ds => d * prod ds

/-- `sort; dedup; len < len` — some element occurs twice. -/
def hasDup [BEq α] : List α → Bool
  | [] => false
  | x :: xs => xs.contains x || hasDup xs

/-! ### broadcast.rs -/

/-- dimension `i` of `s` right-aligned with offset `off` (`1` left of the shape). -/
def dimAt (s : List Nat) (off i : Nat) : Nat := if off ≤ i then s.getD (i - off) 1 else 1

/-- one step of the loop of `broadcast_shapes`. -/
def bcastDim (v1 v2 : Nat) : Except String Nat :=
  if 1 < v1 ∧ 1 < v2 ∧ v1 ≠ v2 then .error "Invalid broadcast" else .ok (if v1 ≤ v2 then v2 else v1)

/-- `broadcast_shapes`. -/
def broadcastShapes (s1 s2 : List Nat) : Except String (List Nat) :=
  let n := if s1.length ≤ s2.length then s2.length else s1.length
  loopE (fun i => bcastDim (dimAt s1 (n - s1.length) i) (dimAt s2 (n - s2.length) i)) 0 n

def stOf : Ty → Option ST
  | .scalar st => some st
  | .array _ st => some st
  | _ => none

def isArr : Ty → Bool
  | .array _ _ => true
  | _ => false

def isSc : Ty → Bool
  | .scalar _ => true
  | _ => false

/-- `broadcast_pair` (both arguments scalar or array). -/
def broadcastPair (t1 t2 : Ty) : Except String Ty :=
  match t1, t2 with
  | .scalar a, .scalar b => if a = b then .ok t2 else .error "Scalar types mismatch"
  | .scalar a, .array _ b => if a = b then .ok t2 else .error "Scalar types mismatch"
  | .array _ a, .scalar b => if a = b then .ok t1 else .error "Scalar types mismatch"
  | .array s1 a, .array s2 b =>
    if a = b then
      match broadcastShapes s1 s2 with
      | .ok r => .ok (.array r a)
      | .error e => .error e
    else .error "Scalar types mismatch"
  | _, _ => .error "Can broadcast only scalars and arrays"

/-- the admission test of `broadcast_arrays` for one element. -/
def bcastAdmissible : Ty → Bool
  | .scalar _ => true
  | .array s _ => isValidShape s
  | _ => false

def bcastFold : Ty → List Ty → Except String Ty
  | acc, [] => .ok acc
  | acc, t :: ts =>
    match broadcastPair acc t with
    | .ok r => bcastFold r ts
    | .error e => .error e

/-- `broadcast_arrays`. -/
def broadcastArrays : List Ty → Except String Ty
  | [] => .error "Can't broadcast the empty sequence"
  | t :: ts => if (t :: ts).all bcastAdmissible then bcastFold t ts else .error "Can broadcast only scalars and arrays"

/-! ### slices.rs -/

def cleanGo (rank len : Nat) : List SliceEl → Except String (List SliceEl)
  | [] => .ok []
  | .ellipsis :: xs =>
    if (rank : Int) - (len : Int) + 1 < 0 then .error "Ellipsis corresponds to a negative number of entries"
    else
      match cleanGo rank len xs with
      | .ok r => .ok (List.replicate (rank + 1 - len) (.sub none none none) ++ r)
      | .error e => .error e
  | x :: xs =>
    match cleanGo rank len xs with
    | .ok r => .ok (x :: r)
    | .error e => .error e

/-- `get_clean_slice`. -/
def getCleanSlice (rank : Nat) (sl : List SliceEl) : Except String (List SliceEl) :=
  if 1 < (sl.filter (fun x => x == .ellipsis)).length then .error "Multiple Ellipsis in the slice"
  else
    match cleanGo rank sl.length sl with
    | .error e => .error e
    | .ok r => if rank < r.length then .error "Slice is too long" else .ok r

/-- `normalize_subarray` → `(begin, end, step)`. -/
def normalizeSub (dim : Nat) (b e s : Option Int) : Except String (Int × Int × Int) :=
  let step := s.getD 1
  if step = 0 then .error "Slice step can't be zero"
  else
    let b0 := b.getD (if 0 < step then 0 else (dim : Int) - 1)
    let begin_ := if b0 < 0 then b0 + dim else b0
    let end_ := match e with
      | some x => if 0 ≤ x then x else x + dim
      | none => if 0 < step then (dim : Int) else -1
    .ok (begin_, end_, step)

/-- the counting loop of `get_slice_shape_1d` (`fuel` = remaining iterations; `dim + 1` suffice). -/
def sliceLoop (dim : Nat) (end_ step : Int) : Nat → Int → Nat → Except String Nat
  | 0, _, _ => .error "fuel"
  | fuel + 1, cur, cnt =>
    if (0 < step ∧ end_ ≤ cur) ∨ (step < 0 ∧ cur ≤ end_) then .ok cnt
    else if cur < 0 ∨ (dim : Int) ≤ cur then .error "Slicing index is out of bounds"
    else sliceLoop dim end_ step fuel (cur + step) (cnt + 1)

/-- `get_slice_shape_1d` (`none` = the dimension disappears). -/
def sliceShape1d (dim : Nat) : SliceEl → Except String (Option Nat)
  | .single i =>
    let ind := if i < 0 then i + dim else i
    if ind < 0 ∨ (dim : Int) ≤ ind then .error "Slice is out of bounds (SingleIndex)" else .ok none
  | .sub b e s =>
    match normalizeSub dim b e s with
    | .error err => .error err
    | .ok (begin_, end_, step) =>
      match sliceLoop dim end_ step (dim + 1) begin_ 0 with
      | .error err => .error err
      | .ok c => if c = 0 then .error "Empty slice" else .ok (some c)
  | .ellipsis => .error "panic: Should not be here!"

/-- the loop of `get_slice_shape` over the dimensions (`clean.len() ≤ shape.len()`). -/
def sliceShapeGo : List Nat → List SliceEl → Except String (List Nat)
  | [], _ => .ok []
  | d :: ds, [] =>
    match sliceShapeGo ds [] with
    | .ok r => .ok (d :: r)
    | .error e => .error e
  | d :: ds, el :: els =>
    match sliceShape1d d el with
    | .error e => .error e
    | .ok none => sliceShapeGo ds els
    | .ok (some c) =>
      match sliceShapeGo ds els with
      | .ok r => .ok (c :: r)
      | .error e => .error e

/-- `get_slice_shape`. -/
def getSliceShape (shape : List Nat) (sl : List SliceEl) : Except String (List Nat) :=
  match getCleanSlice shape.length sl with
  | .error e => .error e
  | .ok clean => sliceShapeGo shape clean

/-- `slice_1d_index`. -/
def slice1dIndex (dim : Nat) (b e s : Option Int) (index : Nat) : Except String Nat :=
  match normalizeSub dim b e s with
  | .error err => .error err
  | .ok (begin_, _, step) =>
    let r := begin_ + step * (index : Int)
    if r < 0 then .error "Negative index" else .ok r.toNat

/-- the loop of `slice_index`: returns the source index and the number `j` of consumed entries. -/
def sliceIndexGo (index : List Nat) : List Nat → List SliceEl → Nat → Except String (List Nat × Nat)
  | [], _, j => .ok ([], j)
  | _ :: ds, [], j =>
    if index.length ≤ j then .error "Index is too short"
    else
      match sliceIndexGo index ds [] (j + 1) with
      | .ok (r, j') => .ok (index.getD j 0 :: r, j')
      | .error e => .error e
  | d :: ds, .single ind :: els, j =>
    let real := if 0 ≤ ind then ind else ind + d
    if real < 0 then .error "panic: Should not be here!"
    else
      match sliceIndexGo index ds els j with
      | .ok (r, j') => .ok (real.toNat :: r, j')
      | .error e => .error e
  | d :: ds, .sub b e s :: els, j =>
    if index.length ≤ j then .error "Index is too short"
    else
      match slice1dIndex d b e s (index.getD j 0) with
      | .error err => .error err
      | .ok x =>
        match sliceIndexGo index ds els (j + 1) with
        | .ok (r, j') => .ok (x :: r, j')
        | .error e => .error e
  | _ :: _, .ellipsis :: _, _ => .error "panic: Should not be here!"

/-- `slice_index`. -/
def sliceIndex (shape : List Nat) (sl : List SliceEl) (index : List Nat) : Except String (List Nat) :=
  match getCleanSlice shape.length sl with
  | .error e => .error e
  | .ok clean =>
    match sliceIndexGo index shape clean 0 with
    | .error e => .error e
    | .ok (r, j) =>
      if j = 0 ∧ index = [0] then .ok r
      else if j ≠ index.length then .error "Index is too long"
      else .ok r

/-! ### helpers of type_inference.rs -/

def arrOrScalar (s : List Nat) (st : ST) : Ty := if s.isEmpty then .scalar st else .array s st

/-- `mixed_multiply_inference`. -/
def mixedMultiplyInfer (t0 t1 : Ty) : Except String Ty :=
  match stOf t0, stOf t1 with
  | some st0, some st1 =>
    if st0 = .bit then .error "The scalar type of the first argument shouldn't be BIT"
    else if st1 ≠ .bit then .error "The scalar type of the second argument must be BIT"
    else
      match t0, t1 with
      | _, .scalar _ => .ok t0
      | .scalar _, .array s1 _ => .ok (.array s1 st0)
      | .array s0 _, .array s1 _ =>
        match broadcastShapes s0 s1 with
        | .ok r => .ok (.array r st0)
        | .error e => .error e
      | _, _ => .error "unreachable"
  | _, _ => .error "not a scalar or an array"

/-- `s.remove(s.len() - 1)` -/
def dropLast (s : List Nat) : List Nat := s.take (s.length - 1)

/-- all entries of `s1` but the second-to-last (`for i in 0..s1.len() { if i != s1.len() - 2 …`). -/
def dropSecondLast (s : List Nat) : List Nat := s.take (s.length - 2) ++ s.drop (s.length - 1)

/-- `dot_type_inference`. -/
def dotInfer (t0 t1 : Ty) : Except String Ty :=
  match stOf t0, stOf t1 with
  | some st0, some st1 =>
    if st0 ≠ st1 then .error "Incompatible scalar types"
    else
      match t0, t1 with
      | .array s0 _, .array s1 _ =>
        if s0.length = 1 ∧ s1.length = 1 then
          if s0.getD 0 0 ≠ s1.getD 0 0 then .error "Dot with incompatible dimensions" else .ok (.scalar st0)
        else if s1.length = 1 then
          if s0.getD (s0.length - 1) 0 ≠ s1.getD 0 0 then .error "Dot with incompatible dimensions"
          else .ok (.array (dropLast s0) st0)
        else if s0.getD (s0.length - 1) 0 ≠ s1.getD (s1.length - 2) 0 then .error "Dot with incompatible dimensions"
        else .ok (.array (dropLast s0 ++ dropSecondLast s1) st0)
      | .array _ _, _ => .ok t0
      | _, _ => .ok t1
  | _, _ => .error "not a scalar or an array"

/-- `matmul_type_inference`. -/
def matmulInfer (t0 t1 : Ty) : Except String Ty :=
  match t0, t1 with
  | .array sh0 st0, .array sh1 st1 =>
    if st0 ≠ st1 then .error "Incompatible scalar types"
    else
      let rm0 := sh0.length = 1
      let s0 := if sh0.length = 1 then 1 :: sh0 else sh0
      let rm1 := sh1.length = 1
      let s1 := if sh1.length = 1 then sh1 ++ [1] else sh1
      if s0.getD (s0.length - 1) 0 ≠ s1.getD (s1.length - 2) 0 then .error "Matmul with incompatible dimensions"
      else
        match broadcastShapes (s0.take (s0.length - 2)) (s1.take (s1.length - 2)) with
        | .error e => .error e
        | .ok batch =>
          let r1 := if rm0 then batch else batch ++ [s0.getD (s0.length - 2) 0]
          let r2 := if rm1 then r1 else r1 ++ [s1.getD (s1.length - 1) 0]
          .ok (arrOrScalar r2 st0)
  | _, _ => .error "argument of matmul is not an array"

/-- `transpose_shape`. -/
def transposeShape (s : List Nat) (flag : Bool) : List Nat :=
  if flag = true ∧ 1 < s.length then
    s.take (s.length - 2) ++ [s.getD (s.length - 1) 0, s.getD (s.length - 2) 0]
  else s

/-- `gemm_type_inference`. -/
def gemmInfer (t0 t1 : Ty) (ta tb : Bool) : Except String Ty :=
  match t0, t1 with
  | .array sh0 st0, .array sh1 st1 =>
    if st0 ≠ st1 then .error "Incompatible scalar types"
    else if sh0.length = 1 ∨ sh1.length = 1 then .error "To multiply vectors, use matmul or dot"
    else
      let s0 := transposeShape sh0 ta
      let s1 := transposeShape sh1 tb
      if s0.getD (s0.length - 1) 0 ≠ s1.getD (s1.length - 2) 0 then .error "Gemm with incompatible dimensions"
      else
        match broadcastShapes (s0.take (s0.length - 2)) (s1.take (s1.length - 2)) with
        | .error e => .error e
        | .ok batch => .ok (.array (batch ++ [s0.getD (s0.length - 2) 0, s1.getD (s1.length - 1) 0]) st0)
  | _, _ => .error "argument of gemm is not an array"

/-- `a2b_type_inference`. -/
def a2bInfer : Ty → Except String Ty
  | .scalar st => if st = .bit then .error "A2B can't be applied to bits" else .ok (.array [st.bits] .bit)
  | .array s st => if st = .bit then .error "A2B can't be applied to bits" else .ok (.array (s ++ [st.bits]) .bit)
  | _ => .error "Invalid type for A2B"

/-- `b2a_type_inference`. -/
def b2aInfer (t : Ty) (st : ST) : Except String Ty :=
  if t.isValid = false then .error "Invalid type"
  else
    match t with
    | .array s ast =>
      if ast ≠ .bit then .error "Trying to B2A from non-bits"
      else if st = .bit then .error "Trying to B2A into bits"
      else if s.getD (s.length - 1) 0 ≠ st.bits then .error "Invalid scalar type for B2A"
      else if s.length = 1 then .ok (.scalar st)
      else .ok (.array (dropLast s) st)
    | _ => .error "Trying to B2A non-array"

mutual
/-- `flatten_type`. -/
def flattenTy : Ty → List Ty
  | .scalar st => [.scalar st]
  | .array s st => [.array s st]
  | .vector n t => (List.replicate n (flattenTy t)).flatten
  | .tuple ts => flattenL ts
  | .named fs => flattenN fs
def flattenL : List Ty → List Ty
  | [] => []
  | t :: ts => flattenTy t ++ flattenL ts
def flattenN : List (String × Ty) → List Ty
  | [] => []
  | (_, t) :: fs => flattenTy t ++ flattenN fs
end

def dimsOf : Ty → List Nat
  | .array s _ => s
  | _ => []

def okShape (s : List Nat) : Bool := s.isEmpty || isValidShape s

/-- `can_atomic_reshape` (arguments are scalars or arrays; a scalar has the empty shape). -/
def canAtomicReshape (t1 t2 : Ty) : Bool :=
  match stOf t1, stOf t2 with
  | some a, some b =>
    a == b && okShape (dimsOf t1) && okShape (dimsOf t2) && prod (dimsOf t1) == prod (dimsOf t2)
  | _, _ => false

def allAtomic : List Ty → List Ty → Bool
  | [], _ => true
  | _ :: _, [] => false
  | a :: as, b :: bs => canAtomicReshape a b && allAtomic as bs

/-- `for i in 0..s.len() { if s[i] >= os[i] …` -/
def allLt : List Nat → List Nat → Bool
  | [], _ => true
  | _ :: _, [] => false
  | x :: xs, d :: ds => decide (x < d) && allLt xs ds

/-- entries of `os` whose position is not in `axes` (`Sum`). -/
def dropAxes (axes : List Nat) : List Nat → Nat → List Nat
  | [], _ => []
  | d :: ds, i => if axes.contains i then dropAxes axes ds (i + 1) else d :: dropAxes axes ds (i + 1)

/-- the loop of `Concatenate` over the remaining inputs. -/
def concatGo (axis : Nat) (st : ST) : List Nat → List Ty → Except String (List Nat)
  | acc, [] => .ok acc
  | acc, .array s st' :: ts =>
    if st' ≠ st then .error "Inputs have different scalar types"
    else if acc.length ≠ s.length then .error "Inputs have shapes of different length"
    else if ((List.range s.length).all (fun i => acc.getD i 0 == s.getD i 0 || i == axis)) = false then
      .error "Inputs have incompatible shapes"
    else concatGo axis st (acc.set axis (acc.getD axis 0 + s.getD axis 0)) ts
  | _, _ :: _ => .error "All inputs of Concatenate must be arrays"

/-- the loop of `Sort` over the columns: `n` is the common first dimension found so far. -/
def sortGo (key : String) : List (String × Ty) → Option Nat → Bool → Except String Bool
  | [], _, found => .ok found
  | (name, .array s st) :: fs, n, found =>
    if name = key ∧ (s.length ≠ 2 ∨ st ≠ .bit) then .error "The key array should be 2-dimensional BIT"
    else
      let n' := match n with
        | none => s.getD 0 0
        | some x => x
      if n' ≠ s.getD 0 0 then .error "Sort supported only for Arrays with the same first dimension"
      else sortGo key fs (some n') (found || name == key)
  | _ :: _, _, _ => .error "Sort supported only for Arrays"

/-- the loop of `Zip`. -/
def zipGo : List Ty → Option Nat → Except String (Nat × List Ty)
  | [], some len => .ok (len, [])
  | [], none => .error "panic: Should not be here!"
  | .vector l et :: ts, len =>
    if len.getD l ≠ l then .error "Zip of uneven lengths"
    else
      match zipGo ts (some l) with
      | .ok (n, ets) => .ok (n, et :: ets)
      | .error e => .error e
  | _ :: _, _ => .error "An argument of zip is not a vector"

def isUIntIndex (st : ST) : Bool := st.bits != 128 && st != .bit && !st.signed

def isPrfKey : Ty → Bool
  | .array s st => decide (s = [128]) && st == .bit
  | _ => false

def lookupField (name : String) : List (String × Ty) → Option Ty
  | [] => none
  | (n, t) :: fs => if n = name then some t else lookupField name fs

/-- `get_number_of_node_dependencies` (`none` = variable). -/
def numDeps : Op → Option Nat
  | .input _ | .zeros _ | .ones _ | .random _ | .constant _ _ | .randomPermutation _ => some 0
  | .truncate _ | .sum _ | .cumSum _ | .permuteAxes _ | .inversePermutation | .cuckooToPermutation
  | .sort _ | .get _ | .getSlice _ | .reshape _ | .nop | .prf _ | .permutationFromPRF _ | .a2b | .b2a _
  | .tupleGet _ | .namedTupleGet _ | .repeat_ _ | .arrayToVector | .vectorToArray
  | .decomposeSwitchingMap _ | .print => some 1
  | .add | .subtract | .multiply | .mixedMultiply | .dot | .matmul | .vectorGet | .gather _ | .iterate _ _
  | .cuckooHash | .applyPermutation _ | .gemm _ _ | .assert => some 2
  | .segmentCumSum => some 3
  | .stack _ | .concatenate _ | .createTuple | .createNamedTuple _ | .createVector _ | .zip | .call _ _ => none

/-- does the branch of `process_node` call `register_result` (validity check of the result)? -/
def registers : Op → Bool
  | .decomposeSwitchingMap _ => false
  | _ => true

/-! per-operation rules on the list of dependency types (a wrong count falls through to an error:
    `process_node` rejects it before the `match`) -/

def arityErr : Except String Ty := .error "Invalid number of node dependencies"

def inferApplyPermutation : List Ty → Except String Ty
  | [.array s st, .array ps pst] =>
    if pst.bits = 128 then .error "ApplyPermutation is not supported for 128-bit index type"
    else if ps.length ≠ 1 ∨ ps.getD 0 0 ≠ s.getD 0 0 ∨ pst = .bit ∨ pst.signed = true then
      .error "Permutation should be a 1D UINT* array"
    else .ok (.array s st)
  | _ => .error "ApplyPermutation supported only for Array"

def inferSort (key : String) : List Ty → Except String Ty
  | [.named fs] =>
    match sortGo key fs none false with
    | .error e => .error e
    | .ok found => if found then .ok (.named fs) else .error "Sort operation cannot find a column"
  | _ => .error "Sort operation requires 1 argument of type named tuple"

def inferTruncate (d : Nat) : List Ty → Except String Ty
  | [t] =>
    if d = 0 then .error "Can't divide by zero"
    else
      match stOf t with
      | none => .error "Can't truncate this type"
      | some st => if st.signed = true ∧ 2 ^ 127 - 1 < d then .error "Scale for truncation is too large" else .ok t
  | _ => arityErr

def inferSum (axes : List Nat) : List Ty → Except String Ty
  | [.array os st] =>
    if hasDup axes then .error "Non-unique axes"
    else if axes.any (fun x => decide (os.length ≤ x)) then .error "Invalid axis"
    else .ok (arrOrScalar (dropAxes axes os 0) st)
  | _ => .error "Can't sum this type"

def inferCumSum (axis : Nat) : List Ty → Except String Ty
  | [.array os st] => if os.length ≤ axis then .error "Invalid axis" else .ok (.array os st)
  | _ => .error "Can't cum_sum this type"

def inferPermuteAxes (axes : List Nat) : List Ty → Except String Ty
  | [.array os st] =>
    if hasDup axes then .error "Non-unique axes"
    else if axes.any (fun x => decide (os.length ≤ x)) then .error "Invalid axes"
    else if axes.length ≠ os.length then .error "Not a permutation"
    else .ok (.array (axes.map (fun i => os.getD i 0)) st)
  | _ => .error "Can't permute_axes this type"

def inferInversePermutation : List Ty → Except String Ty
  | [.array s st] =>
    if st.bits = 128 then .error "InversePermutation is not supported for 128-bit type"
    else if st = .bit ∨ st.signed = true then .error "Input elements must be UINT*"
    else if 1 < s.length then .error "Input type should be an array with one dimension"
    else .ok (.array s st)
  | _ => .error "Input type should be an array"

def inferCuckooToPermutation : List Ty → Except String Ty
  | [.array s st] => if st ≠ .u64 then .error "Input elements must be 64-bit integers" else .ok (.array s st)
  | _ => .error "Input type should be an array"

def inferDecomposeSwitchingMap (n : Nat) : List Ty → Except String Ty
  | [.array s st] =>
    if st ≠ .u64 then .error "Input elements must be 64-bit integers"
    else if n < s.getD (s.length - 1) 0 then .error "Switching map is longer than expected"
    else .ok (.tuple [.array s st, .tuple [.array s .u64, .array s .bit], .array s st])
  | _ => .error "Input type should be an array"

def inferGet (idx : List Nat) : List Ty → Except String Ty
  | [.array os st] =>
    if os.length < idx.length then .error "Too long index"
    else if allLt idx os = false then .error "Out of bounds"
    else if idx.length = os.length then .ok (.scalar st)
    else .ok (.array (os.drop idx.length) st)
  | _ => .error "Can't run get on this type"

def inferGetSlice (sl : List SliceEl) : List Ty → Except String Ty
  | [.array os st] =>
    match getSliceShape os sl with
    | .error e => .error e
    | .ok ns => .ok (arrOrScalar ns st)
  | _ => .error "Can't run get_slice on this type"

def inferReshape (nt : Ty) : List Ty → Except String Ty
  | [ot] =>
    if (flattenTy ot).length ≠ (flattenTy nt).length then .error "Incompatible types for reshape"
    else if allAtomic (flattenTy ot) (flattenTy nt) = false then .error "Incompatible types for reshape"
    else .ok nt
  | _ => arityErr

def inferPrf (ot : Ty) : List Ty → Except String Ty
  | [t] => if isPrfKey t then .ok ot else .error "PRF key must consist of 128 bits"
  | _ => arityErr

def inferPermutationFromPRF (n : Nat) : List Ty → Except String Ty
  | [t] =>
    if isPrfKey t = false then .error "PRF key must consist of 128 bits"
    else if n < 1 then .error "Permutation length should be positive"
    else if 2 ^ 30 < n then .error "Permutation length should be less than 2^30"
    else .ok (.array [n] .u64)
  | _ => arityErr

def inferStack (outer : List Nat) (tys : List Ty) : Except String Ty :=
  if isValidShape outer = false then .error "Invalid outer shape"
  else if tys.length ≠ prod outer then .error "Stack with a wrong number of arguments"
  else
    match broadcastArrays tys with
    | .error e => .error e
    | .ok (.scalar st) => .ok (.array outer st)
    | .ok (.array s st) => .ok (.array (outer ++ s) st)
    | .ok _ => .error "unreachable"

def inferConcatenate (axis : Nat) (tys : List Ty) : Except String Ty :=
  if tys.length < 2 then .error "Concatenate should have at least two input arrays"
  else if tys.all isArr = false then .error "All inputs of Concatenate must be arrays"
  else
    match tys with
    | .array s0 st :: rest =>
      if s0.length ≤ axis then .error "Wrong concatenation axis"
      else
        match concatGo axis st s0 rest with
        | .error e => .error e
        | .ok rs => .ok (.array rs st)
    | _ => .error "unreachable"

def inferTupleGet (i : Nat) : List Ty → Except String Ty
  | [.tuple ts] =>
    match ts[i]? with
    | some t => .ok t
    | none => .error "Index is out of bounds"
  | [.named fs] =>
    match fs[i]? with
    | some (_, t) => .ok t
    | none => .error "Index is out of bounds"
  | _ => .error "Can't TupleGet from this type"

def inferNamedTupleGet (name : String) : List Ty → Except String Ty
  | [.named fs] =>
    match lookupField name fs with
    | some t => .ok t
    | none => .error "Invalid field name"
  | _ => .error "Can't NamedTupleGet from this type"

def inferVectorGet : List Ty → Except String Ty
  | [vt, it] =>
    if Ty.beq it (.scalar .u64) = false ∧ Ty.beq it (.scalar .u32) = false then
      .error "Vector index must be an UINT64 or UINT32"
    else
      match vt with
      | .vector _ et => .ok et
      | _ => .error "VectorGet can only be applied to vectors"
  | _ => arityErr

def inferZip (tys : List Ty) : Except String Ty :=
  if tys.length < 2 then .error "Zip with a wrong number of arguments"
  else
    match zipGo tys none with
    | .error e => .error e
    | .ok (len, ets) => .ok (.vector len (.tuple ets))

def inferCall (ins : List Ty) (out : Ty) (tys : List Ty) : Except String Ty :=
  if tys.length ≠ ins.length then .error "Invalid number of arguments in Call"
  else if beqL ins tys = false then .error "Type mismatch for argument"
  else .ok out

def inferIterate (ins : List Ty) (out : Ty) : List Ty → Except String Ty
  | [t0, t1] =>
    match ins, out with
    | [stateT, seqT], .tuple [o0, o1] =>
      if Ty.beq o0 stateT = false then .error "State type mismatch"
      else if Ty.beq t0 stateT = false then .error "Invalid state type"
      else
        match t1 with
        | .vector len et =>
          if Ty.beq et seqT then .ok (.tuple [stateT, .vector len o1]) else .error "Invalid sequence type"
        | _ => .error "Invalid sequence type: expected vector"
    | _, _ => .error "Iterate graph must have two inputs and output a tuple of two elements"
  | _ => arityErr

def inferArrayToVector : List Ty → Except String Ty
  | [.array s st] =>
    if s.length = 1 then .ok (.vector (s.getD 0 0) (.scalar st))
    else .ok (.vector (s.getD 0 0) (.array (s.drop 1) st))
  | _ => .error "ArrayToVector applied to a non-array"

def inferVectorToArray : List Ty → Except String Ty
  | [.vector n et] =>
    if n = 0 then .error "VectorToArray can't be applied to an empty vector"
    else
      match et with
      | .scalar st => .ok (.array [n] st)
      | .array s st => .ok (.array (n :: s) st)
      | _ => .error "VectorToArray can be only applied to a vector of scalars or arrays"
  | _ => .error "VectorToArray can't be applied to a non-vector"

def inferGather (axis : Nat) : List Ty → Except String Ty
  | [.array is_ st, .array xs xst] =>
    if isUIntIndex xst = false then .error "Indices must be an array of UINT*"
    else if is_.length ≤ axis then .error "Invalid axis"
    else if is_.getD axis 0 < prod xs then .error "Number of indices is too big"
    else .ok (.array (is_.take axis ++ xs ++ is_.drop (axis + 1)) st)
  | _ => .error "Take can be only applied to an array / Indices must be an array"

def inferCuckooHash : List Ty → Except String Ty
  | [.array is_ ist, .array hs hst] =>
    if ist ≠ .bit then .error "CuckooHash can't be applied to a non-binary arrays"
    else if is_.length < 2 then .error "Input shape must have at least 2 dimensions"
    else if hst ≠ .bit then .error "CuckooHash needs a binary array as a hash matrix"
    else if hs.length ≠ 3 then .error "Hash array should have 3 dimensions"
    else if hs.getD 0 0 < 3 then .error "At least 3 hash matrices should be provided"
    else if 63 < hs.getD 1 0 then .error "Hash map is too big"
    else if hs.getD 2 0 ≠ is_.getD (is_.length - 1) 0 then .error "Hash matrix accepts bitstrings of other length"
    else .ok (.array (is_.take (is_.length - 2) ++ [2 ^ hs.getD 1 0]) .u64)
  | _ => .error "CuckooHash can't be applied to a non-binary arrays"

def inferSegmentCumSum : List Ty → Except String Ty
  | [.array s st, bt, ft] =>
    if Ty.beq bt (.array [s.getD 0 0] .bit) = false then
      .error "Second argument must be a one-dimensional binary array"
    else if Ty.beq ft (if s.length = 1 then .scalar st else .array (s.drop 1) st) = false then
      .error "Input array and first row are incompatible"
    else .ok (.array (s.set 0 (s.getD 0 0 + 1)) st)
  | _ => .error "First argument must be an array"

def inferBin (f : Ty → Ty → Except String Ty) : List Ty → Except String Ty
  | [a, b] => f a b
  | _ => arityErr

def inferUn (f : Ty → Except String Ty) : List Ty → Except String Ty
  | [a] => f a
  | _ => arityErr

/-- the `match node.get_operation()` of `process_node`, before `register_result`. -/
def inferRaw (op : Op) (tys : List Ty) : Except String Ty :=
  match op with
  | .input t => if t.isValid then .ok t else .error "Input with an invalid type"
  | .zeros t => if t.isValid then .ok t else .error "Invalid type"
  | .ones t => if t.isValid then .ok t else .error "Invalid type"
  | .add => inferBin (fun a b => broadcastArrays [a, b]) tys
  | .subtract => inferBin (fun a b => broadcastArrays [a, b]) tys
  | .multiply => inferBin (fun a b => broadcastArrays [a, b]) tys
  | .mixedMultiply => inferBin mixedMultiplyInfer tys
  | .dot => inferBin dotInfer tys
  | .matmul => inferBin matmulInfer tys
  | .gemm ta tb => inferBin (fun a b => gemmInfer a b ta tb) tys
  | .applyPermutation _ => inferApplyPermutation tys
  | .sort key => inferSort key tys
  | .truncate d => inferTruncate d tys
  | .sum axes => inferSum axes tys
  | .cumSum axis => inferCumSum axis tys
  | .permuteAxes axes => inferPermuteAxes axes tys
  | .inversePermutation => inferInversePermutation tys
  | .cuckooToPermutation => inferCuckooToPermutation tys
  | .decomposeSwitchingMap n => inferDecomposeSwitchingMap n tys
  | .get idx => inferGet idx tys
  | .getSlice sl => inferGetSlice sl tys
  | .reshape nt => inferReshape nt tys
  | .nop => inferUn .ok tys
  | .random t => .ok t
  | .randomPermutation n =>
    if n = 0 then .error "Permutation length should be non-zero" else .ok (.array [n] .u64)
  | .prf ot => inferPrf ot tys
  | .permutationFromPRF n => inferPermutationFromPRF n tys
  | .stack outer => inferStack outer tys
  | .concatenate axis => inferConcatenate axis tys
  | .constant t v =>
    match checkType v t with
    | .ok true => .ok t
    | _ => .error "Invalid constant type"
  | .a2b => inferUn a2bInfer tys
  | .b2a st => inferUn (fun t => b2aInfer t st) tys
  | .createTuple => .ok (.tuple tys)
  | .createNamedTuple names =>
    if tys.length ≠ names.length then .error "Invalid number of fields provided"
    else if hasDup names then .error "Duplicate fields in named tuple"
    else .ok (.named (names.zip tys))
  | .createVector et =>
    if tys.all (fun t => Ty.beq t et) then .ok (.vector tys.length et) else .error "Vector element type mismatch"
  | .tupleGet i => inferTupleGet i tys
  | .namedTupleGet name => inferNamedTupleGet name tys
  | .vectorGet => inferVectorGet tys
  | .zip => inferZip tys
  | .repeat_ n => inferUn (fun t => .ok (.vector n t)) tys
  | .call ins out => inferCall ins out tys
  | .iterate ins out => inferIterate ins out tys
  | .arrayToVector => inferArrayToVector tys
  | .vectorToArray => inferVectorToArray tys
  | .gather axis => inferGather axis tys
  | .cuckooHash => inferCuckooHash tys
  | .segmentCumSum => inferSegmentCumSum tys
  | .print => inferUn .ok tys
  | .assert =>
    inferBin (fun c t => if Ty.beq c (.scalar .bit) then .ok t else .error "Assertion condition must be a scalar bit") tys

/-- the dependency-count test of `process_node`. -/
def arityOk (op : Op) (n : Nat) : Bool :=
  match numDeps op with
  | some k => n == k
  | none => true

/-- `process_node` for one node whose dependencies have the (valid) types `tys`:
    dependency count, the typing rule, then `register_result` (result must be valid). -/
def infer (op : Op) (tys : List Ty) : Except String Ty :=
  if arityOk op tys.length = false then
    .error "Invalid number of node dependencies"
  else
    match inferRaw op tys with
    | .error e => .error e
    | .ok t =>
      if registers op = true ∧ t.isValid = false then .error "Trying to register invalid type" else .ok t

end CCV.TI
