import CCV.Model.Ops
import CCV.Model.Inline
/-
  Array-level model of `inline_iterate_small_state(single_bit = false, …)` and of its one-bit variant
  (ciphercore-base/src/inline/exponential_inliner.rs) for a BATCHED state: a BIT array of shape
  `B ++ [K]` (batch shape `B`, `K` state bits in the last axis).  Every array is the flat row-major
  list of its entries (`0`/`1`), exactly the evaluator's view; the graph operations the inliner emits
  are the evaluator-shaped functions of `CCV.Ops` (`arith` = Add/Multiply with broadcasting,
  `getSlice`, `vectorToArray` = CreateVector + VectorToArray, `permuteAxes`, `get`, `matmul`;
  `Reshape` keeps the flat list).  A body graph is a function on flat state arrays
  `G : List Nat → I → List Nat × O`.

  Rust functions mirrored: `mask_to_value`, `one_hot_encode`, `create_mapping_matrix`,
  `create_mappings`, `MappingCombiner::combine`, `MappingCombiner1Bit::combine`,
  `extract_state_from_mapping`, `inline_iterate_small_state`.
-/
namespace CCV.InlineBatch
open CCV CCV.Shape CCV.Ops CCV.Slices CCV.Inline

/-- result of an `Ops` function that cannot fail on operands of the stated shapes (the type checker
    has already accepted the node); an evaluator error would surface as an empty array -/
def okD (e : Except String (List Nat)) : List Nat :=
  match e with
  | .ok r => r
  | .error _ => []

/-- `Vec::rotate_left(k)` -/
def rotl (l : List Nat) (k : Nat) : List Nat := l.drop k ++ l.take k

/-- `slice::swap(a, b)` -/
def swapAt (l : List Nat) (a b : Nat) : List Nat := (l.set a (l.getD b 0)).set b (l.getD a 0)

/-- shape after `permute_axes(perm)` -/
def permShape (sh perm : List Nat) : List Nat := perm.map fun j => sh.getD j 0

/-- `mask_to_value(state_type, num_bits, mask)` for an array state type of shape `shape`: entry `i`
    is bit `state_index` of the mask, `state_index` = last digit of `number_to_index(i, shape)`
    (0 when `num_bits == 1`). -/
def maskToValue (shape : List Nat) (numBits mask : Nat) : List Nat :=
  (List.range (prod shape)).map fun i =>
    let index := numberToIndex i shape
    let si := if numBits = 1 then 0 else index.getD (index.length - 1) 0
    (mask >>> si) % 2

/-- BIT `Add` / `Multiply` of two arrays of the same shape -/
def bitAdd (shape a b : List Nat) : List Nat := okD (arith .add .bit shape a shape b shape)
def bitMul (shape a b : List Nat) : List Nat := okD (arith .mul .bit shape a shape b shape)

/-- dimensions the evaluator uses for an array of shape `B` (`[1]` for a scalar) -/
def dimsOf (B : List Nat) : List Nat := if B = [] then [1] else B

/-- `one_hot_encode(val, depth = 2^K, mask_constants, …, single_bit = false)`; `val` has shape
    `B ++ [K]`, the result shape `[2^K] ++ B`: for every `mask`, `bit_diff = val + mask_constants[~mask]`,
    the `K` columns `bit_diff[..., k]` are multiplied together; the `2^K` products are stacked. -/
def oneHotEncode (B : List Nat) (K : Nat) (val : List Nat) : List Nat :=
  let shape := B ++ [K]
  let depth := 2 ^ K
  vectorToArray ((List.range depth).map fun mask =>
    let columnId := maskToValue shape K ((depth - 1) ^^^ mask)
    let bitDiff := bitAdd shape val columnId
    let cols := (List.range K).map fun (k : Nat) =>
      okD (getSlice shape bitDiff [.ellipsis, .single (Int.ofNat k)] (dimsOf B))
    (cols.drop 1).foldl (fun eq c => bitMul (dimsOf B) eq c) (cols.headD []))

/-- second half of `create_mappings`: `ohs[i][m]` = `one_hot_encode(mapping_table[m])` of step `i`
    (shape `[D] ++ B`, `D = 2^K`).  `create_mapping_matrix` stacks the `D` of them (`[D, D] ++ B`), the
    `n` matrices are stacked (`[n, D, D] ++ B`), the axes are permuted with
    `[0] ++ rotate_left([1, …, r+2], 2)` (`[n] ++ B ++ [D, D]`) and `get([i])` splits the steps. -/
def stackMappings (B : List Nat) (K : Nat) (ohs : List (List (List Nat))) : List (List Nat) :=
  let D := 2 ^ K
  let arr := vectorToArray (ohs.map vectorToArray)
  let sh := [ohs.length, D, D] ++ B
  let perm := 0 :: rotl (List.range' 1 (sh.length - 1)) 2
  let outSh := permShape sh perm
  let arr' := permuteAxes arr sh perm outSh
  (List.range ohs.length).map fun i => get outSh arr' [i]

/-- the mask constants `mask_constants[m]`, `m < 2^K` -/
def maskConstants (B : List Nat) (K : Nat) : List (List Nat) :=
  (List.range (2 ^ K)).map (maskToValue (B ++ [K]) K)

/-- `create_mappings(…, single_bit = false)`: the body is inlined on every constant state and every
    input; the new states are one-hot encoded and laid out by `stackMappings`. -/
def createMappings (B : List Nat) (K : Nat) (G : List Nat → I → List Nat) (xs : List I) : List (List Nat) :=
  stackMappings B K (xs.map fun x => (maskConstants B K).map fun mc => oneHotEncode B K (G mc x))

/-- `MappingCombiner::combine = arg1.matmul(arg2)` on BIT arrays of shape `B ++ [D, D]` -/
def combine (B : List Nat) (K : Nat) (a b : List Nat) : List Nat :=
  let sh := B ++ [2 ^ K, 2 ^ K]
  matmul .bit sh a sh b sh

/-- `initial_state_one_hot`: `one_hot_encode(initial_state)` (`[D] ++ B`) reshaped to `[1, D] ++ B`
    and permuted with `rotate_left([0, …, r+1], 2)` to `B ++ [1, D]`. -/
def permuteInitial (B : List Nat) (K : Nat) (oh : List Nat) : List Nat :=
  let newShape := 1 :: 2 ^ K :: B
  let perm := rotl (List.range newShape.length) 2
  permuteAxes oh newShape perm (permShape newShape perm)

/-- `masks_arr`: the mask constants stacked (`[D] ++ B ++ [K]`) and permuted with
    `rotate_left([0, …, r+1], 1)` followed by `swap(rank-2, rank-1)` to `B ++ [D, K]`. -/
def masksArr (B : List Nat) (K : Nat) : List Nat :=
  let sh := 2 ^ K :: (B ++ [K])
  let arr := vectorToArray (maskConstants B K)
  let perm0 := rotl (List.range sh.length) 1
  let perm := swapAt perm0 (perm0.length - 2) (perm0.length - 1)
  permuteAxes arr sh perm (permShape sh perm)

/-- `extract_state_from_mapping`, general case:
    `initial_state_one_hot.matmul(mapping).matmul(masks_arr).reshape(state_type)` -/
def extractState (B : List Nat) (K : Nat) (oh0 masks mapping : List Nat) : List Nat :=
  let D := 2 ^ K
  let o := matmul .bit (B ++ [1, D]) oh0 (B ++ [D, D]) mapping (B ++ [1, D])
  matmul .bit (B ++ [1, D]) o (B ++ [D, K]) masks (B ++ [1, K])

/-- `inline_iterate_small_state(single_bit = false, …)` on a batched state of shape `B ++ [K]`. -/
def iterSmallB (level : Level) (B : List Nat) (K : Nat) (emptyOut : Bool) (unit : O)
    (G : List Nat → I → List Nat × O) (s : List Nat) (xs : List I) : List Nat × List O :=
  if xs.isEmpty then (s, [])
  else
    let mappings := createMappings B K (fun st x => (G st x).1) xs
    let oh0 := permuteInitial B K (oneHotEncode B K s)
    let masks := masksArr B K
    if emptyOut then
      (extractState B K oh0 masks ((logDepthSum (combine B K) mappings).getD []), xs.map fun _ => unit)
    else
      let ps := pick level xs.length (combine B K) mappings
      let states := s :: ps.map (extractState B K oh0 masks)
      (extractState B K oh0 masks (ps.getLast?.getD []), List.zipWith (fun st x => (G st x).2) states xs)

/-! ### one-bit variant (`single_bit = true`): the state is a BIT array of any shape `sh`
    (dimensions `[1]` for a scalar); a mapping is the tuple of the two arrays "image of all-0" and
    "image of all-1"; everything is elementwise. -/

abbrev Map1B := List Nat × List Nat

/-- `MappingCombiner1Bit::combine`: `out_k = bit1k * (bit20 + bit21) + bit20`, elementwise -/
def comb1B (sh : List Nat) (m1 m2 : Map1B) : Map1B :=
  let distinct := bitAdd sh m2.1 m2.2
  (bitAdd sh (bitMul sh m1.1 distinct) m2.1, bitAdd sh (bitMul sh m1.2 distinct) m2.1)

/-- `extract_state_from_mapping`, single-bit case: `out0 * (s + 1) + out1 * s`; `1` is the scalar
    `ones(BIT)` broadcast to the state shape -/
def extract1B (sh : List Nat) (s : List Nat) (m : Map1B) : List Nat :=
  let notS := okD (arith .add .bit sh s [1] [1] sh)
  bitAdd sh (bitMul sh m.1 notS) (bitMul sh m.2 s)

/-- `inline_iterate_small_state(single_bit = true, …)` on a batched state of dimensions `sh`. -/
def iterOneBitB (level : Level) (sh : List Nat) (emptyOut : Bool) (unit : O)
    (G : List Nat → I → List Nat × O) (s : List Nat) (xs : List I) : List Nat × List O :=
  if xs.isEmpty then (s, [])
  else
    let c0 := maskToValue sh 1 0
    let c1 := maskToValue sh 1 1
    let mappings : List Map1B := xs.map fun x => ((G c0 x).1, (G c1 x).1)
    if emptyOut then
      (extract1B sh s ((logDepthSum (comb1B sh) mappings).getD ([], [])), xs.map fun _ => unit)
    else
      let ps := pick level xs.length (comb1B sh) mappings
      let states := s :: ps.map (extract1B sh s)
      (extract1B sh s (ps.getLast?.getD ([], [])), List.zipWith (fun st x => (G st x).2) states xs)

end CCV.InlineBatch
