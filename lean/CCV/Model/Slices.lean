/-
  Model of ciphercore-base/src/slices.rs: NumPy-like slice normalisation
  (`get_clean_slice`, `normalize_subarray`, `get_slice_shape_1d`, `get_slice_shape`,
  `slice_1d_index`, `slice_index`).  Import-free.  `i64` values are modelled as `Int`
  (the harness keeps slice parameters far away from the `i64` overflow range).
-/
namespace CCV.Slices

/-- `graphs::SliceElement` -/
inductive SE where
  | single (i : Int)
  | sub (b e s : Option Int)
  | ellipsis
  deriving DecidableEq, Repr, Inhabited

/-- `get_clean_slice(shape, slice)`: at most one ellipsis, expanded to `rank - len + 1` full
    sub-arrays; the result must not be longer than the shape. -/
def getCleanSlice (rank : Nat) (slice : List SE) : Except String (List SE) :=
  if 1 < (slice.filter (· == SE.ellipsis)).length then .error "Multiple Ellipsis in the slice"
  else
    let padding : Int := (rank : Int) - (slice.length : Int) + 1
    if slice.any (· == SE.ellipsis) ∧ padding < 0 then
      .error "Ellipsis corresponds to a negative number of entries"
    else
      let clean := slice.flatMap fun x =>
        if x == SE.ellipsis then List.replicate padding.toNat (SE.sub none none none) else [x]
      if rank < clean.length then .error "Slice is too long" else .ok clean

/-- `normalize_subarray(dimension, SubArray(begin, end, step))` = `(begin, end, step)`. -/
def normalizeSubarray (dim : Nat) (b e s : Option Int) : Except String (Int × Int × Int) :=
  let step := s.getD 1
  if step = 0 then .error "Slice step can't be zero"
  else
    let b0 := b.getD (if 0 < step then 0 else (dim : Int) - 1)
    let begin := if b0 < 0 then b0 + dim else b0
    let end_ := match e with
      | some x => if 0 ≤ x then x else x + dim
      | none => if 0 < step then (dim : Int) else -1
    .ok (begin, end_, step)

/-- the counting loop of `get_slice_shape_1d` (fuel = `dim + 1` suffices: every continuing
    iteration has `0 ≤ current < dim` and `current` moves strictly monotonically). -/
def countLoop (dim : Nat) (e step : Int) : Nat → Int → Nat → Except String Nat
  | 0, _, _ => .error "fuel"
  | fuel + 1, cur, cnt =>
    if (0 < step ∧ e ≤ cur) ∨ (step < 0 ∧ cur ≤ e) then .ok cnt
    else if cur < 0 ∨ (dim : Int) ≤ cur then .error "Slicing index is out of bounds"
    else countLoop dim e step fuel (cur + step) (cnt + 1)

/-- `get_slice_shape_1d(dimension, element)`: `none` for a single index (axis removed),
    `some count` for a sub-array. -/
def getSliceShape1d (dim : Nat) : SE → Except String (Option Nat)
  | .single i =>
    let ind := if i < 0 then i + dim else i
    if ind < 0 ∨ (dim : Int) ≤ ind then .error "Slice is out of bounds (SingleIndex)" else .ok none
  | .sub b e s =>
    match normalizeSubarray dim b e s with
    | .error m => .error m
    | .ok (begin, end_, step) =>
      match countLoop dim end_ step (dim + 1) begin 0 with
      | .error m => .error m
      | .ok 0 => .error "Empty slice"
      | .ok c => .ok (some c)
  | .ellipsis => .error "panic"

/-- loop of `get_slice_shape` over the axes -/
def sliceShapeLoop : List Nat → List SE → Except String (List Nat)
  | [], _ => .ok []
  | d :: ds, [] => (sliceShapeLoop ds []).map (d :: ·)
  | d :: ds, se :: ses =>
    match getSliceShape1d d se with
    | .error m => .error m
    | .ok r =>
      match sliceShapeLoop ds ses with
      | .error m => .error m
      | .ok rest => .ok (match r with | some c => c :: rest | none => rest)

/-- `get_slice_shape(shape, slice)` -/
def getSliceShape (shape : List Nat) (slice : List SE) : Except String (List Nat) :=
  match getCleanSlice shape.length slice with
  | .error m => .error m
  | .ok clean => sliceShapeLoop shape clean

/-- `slice_1d_index(dimension, element, index)` = `begin + step * index` (error when negative). -/
def slice1dIndex (dim : Nat) (b e s : Option Int) (index : Nat) : Except String Nat :=
  match normalizeSubarray dim b e s with
  | .error m => .error m
  | .ok (begin, _, step) =>
    let r := begin + step * (index : Int)
    if r < 0 then .error "Negative index" else .ok r.toNat

/-- loop of `slice_index`; returns the source index and the number `j` of result digits consumed. -/
def sliceIndexLoop : List Nat → List SE → List Nat → Nat → Except String (List Nat × Nat)
  | [], _, _, j => .ok ([], j)
  | _ :: ds, [], index, j =>
    match index with
    | [] => .error "Index is too short"
    | x :: xs =>
      match sliceIndexLoop ds [] xs (j + 1) with
      | .error m => .error m
      | .ok (r, j') => .ok (x :: r, j')
  | d :: ds, se :: ses, index, j =>
    match se with
    | .single ind =>
      let real := if 0 ≤ ind then ind else ind + d
      if real < 0 then .error "panic"
      else match sliceIndexLoop ds ses index j with
        | .error m => .error m
        | .ok (r, j') => .ok (real.toNat :: r, j')
    | .sub b e s =>
      match index with
      | [] => .error "Index is too short"
      | x :: xs =>
        match slice1dIndex d b e s x with
        | .error m => .error m
        | .ok y =>
          match sliceIndexLoop ds ses xs (j + 1) with
          | .error m => .error m
          | .ok (r, j') => .ok (y :: r, j')
    | .ellipsis => .error "panic"

/-- `slice_index(shape, slice, index)`: the index in the sliced array that result index `index`
    reads.  (The special case `j = 0 ∧ index = [0]` is the scalar result, whose dimensions are `[1]`.) -/
def sliceIndex (shape : List Nat) (slice : List SE) (index : List Nat) : Except String (List Nat) :=
  match getCleanSlice shape.length slice with
  | .error m => .error m
  | .ok clean =>
    match sliceIndexLoop shape clean index 0 with
    | .error m =>
      -- the Rust loop fails with "Index is too short" only when it runs out of result digits
      .error m
    | .ok (r, j) =>
      if j = 0 ∧ index = [0] then .ok r
      else if j ≠ index.length then .error "Index is too long"
      else .ok r

end CCV.Slices
