/-
  Model of the plaintext join of ciphercore
  (`ciphercore-base/src/evaluators/join.rs`, result layout of `type_inference.rs::join_inference`,
  documentation in `graphs.rs` at `Graph::join` / `Graph::join_with_column_masks`).

  A table is a list of rows.  A row is its null flag (the entry of the NULL_HEADER column,
  `true` = the row has content) and its cells in the column order of the named tuple (null column
  left out).  A cell is the column-mask bit of that entry and the entry itself, flattened to a list
  of integers (`get_entry`: `elements_per_row` scalars).  In the variant without column masks every
  mask is `true` and masks are not printed.

  Column names are resolved to positions up front (`Plan`): `k0[i]`/`k1[i]` are the positions of
  the i-th pair of key columns in the first/second table, `w0`/`w1` the elements per row of every
  column.  The result columns are (join_inference): all columns of the first table in their order,
  then the columns of the second table that are not key columns, in their order.

  TWO layers:
  * `impl*` mirrors the algorithm of evaluators/join.rs: hash map of the live keys of the second
    table (a later insert replaces an earlier one), one walk over the rows of the first table, for
    union a second walk over the rows of the second table, full = union(a, left(b, a)).
  * `spec*` is written from the documentation: "the" matching row is any live row of the other
    table with the same row key (the first one is taken), full join is described directly
    (rows of the first set outside the inner join, then all rows of the second set, merged where
    they match).
  `CCV.C19` proves `impl = spec` when live rows have unique keys.

  No imports: this file is linked into the native model executable.
-/
namespace CCV.Join

structure Cell where
  mask : Bool
  data : List Int
deriving DecidableEq, Repr

structure Row where
  null : Bool
  cells : List Cell
deriving DecidableEq, Repr

abbrev Table := List Row

inductive JoinType where
  | inner | left | union | full
deriving DecidableEq, Repr

/-- column names resolved to positions -/
structure Plan where
  /-- positions of the key columns in the first table (order of the header pairs) -/
  k0 : List Nat
  /-- positions of the corresponding key columns in the second table -/
  k1 : List Nat
  /-- `elements_per_row` of the columns of the first table -/
  w0 : List Nat
  /-- `elements_per_row` of the columns of the second table -/
  w1 : List Nat
deriving DecidableEq, Repr

/-- the plan of `join(b, a)` with reversed header pairs (`left_join_headers` in `evaluate_full_join`) -/
def Plan.swap (P : Plan) : Plan := ⟨P.k1, P.k0, P.w1, P.w0⟩

/-- `append_zero_entry`: mask 0, `row_size` zeros -/
def zeroCell (w : Nat) : Cell := ⟨false, List.replicate w 0⟩

/-- `append_zero_row`: null 0, every column a zero entry -/
def zeroRow (ws : List Nat) : Row := ⟨false, ws.map zeroCell⟩

def cellAt (r : Row) (j : Nat) : Cell := r.cells.getD j ⟨false, []⟩

/-- `ColumnsMap::row_has_empty_entries`: null bit 0, or a key column whose mask entry is 0 -/
def hasEmpty (ks : List Nat) (r : Row) : Bool :=
  !r.null || ks.any (fun j => !(cellAt r j).mask)

/-- `ColumnsMap::get_flattened_row`: the row key = concatenated entries of the key columns -/
def rowKey (ks : List Nat) (r : Row) : List Int :=
  ks.flatMap (fun j => (cellAt r j).data)

/-- `copy_entry_from_column`: an entry whose mask is 0 is copied as a zero entry -/
def copyCell (w : Nat) (c : Cell) : Cell := if c.mask then c else zeroCell w

/-- positions of the non-key columns of the second table (`nonkey_headers1`), in table order -/
def nonkey (ks : List Nat) (ws : List Nat) : List Nat :=
  (List.range ws.length).filter (fun j => !ks.contains j)

def widthAt (ws : List Nat) (j : Nat) : Nat := ws.getD j 0

/-- elements per row of the result columns that come from the second table -/
def extraW (P : Plan) : List Nat := (nonkey P.k1 P.w1).map (widthAt P.w1)

/-- elements per row of all result columns (`init_result_columns`) -/
def resW (P : Plan) : List Nat := P.w0 ++ extraW P

/-- all columns of a row of the first table (`for (header0, _) in headers_types0 { copy_entry… }`) -/
def copyRow (ws : List Nat) (a : Row) : List Cell := List.zipWith copyCell ws a.cells

/-- the non-key columns of a row of the second table (`for header1 in nonkey_headers1 { copy_entry… }`) -/
def copyNonkey (P : Plan) (b : Row) : List Cell :=
  (nonkey P.k1 P.w1).map (fun j => copyCell (widthAt P.w1 j) (cellAt b j))

/-- `for header1 in nonkey_headers1 { append_zero_entry }` -/
def zerosExtra (P : Plan) : List Cell := (extraW P).map zeroCell

/-! ### implementation layer -/

/-- `HashMap::insert`: a later insert with the same key replaces the stored row -/
def insertKey (m : List (List Int × Row)) (k : List Int) (r : Row) : List (List Int × Row) :=
  match m with
  | [] => [(k, r)]
  | (k', r') :: t => if k' = k then (k, r) :: t else (k', r') :: insertKey t k r

/-- `get_hashmap_from_key_columns`: rows with empty entries are skipped -/
def buildMap (ks : List Nat) (B : Table) : List (List Int × Row) :=
  B.foldl (fun m r => if hasEmpty ks r then m else insertKey m (rowKey ks r) r) []

/-- `key_data_hashmap1.contains_key` / indexing (the stored row index is resolved to the row) -/
def lookup (m : List (List Int × Row)) (k : List Int) : Option Row :=
  match m with
  | [] => none
  | (k', r) :: t => if k' = k then some r else lookup t k

/-- `get_inner_join_columns` -/
def implInner (P : Plan) (A B : Table) : Table :=
  let m := buildMap P.k1 B
  A.map fun a =>
    if hasEmpty P.k0 a then zeroRow (resW P)
    else match lookup m (rowKey P.k0 a) with
      | some b => ⟨a.null, copyRow P.w0 a ++ copyNonkey P b⟩
      | none => zeroRow (resW P)

/-- `get_left_join_columns` -/
def implLeft (P : Plan) (A B : Table) : Table :=
  let m := buildMap P.k1 B
  A.map fun a =>
    if a.null = false then zeroRow (resW P)
    else if hasEmpty P.k0 a then ⟨a.null, copyRow P.w0 a ++ zerosExtra P⟩
    else match lookup m (rowKey P.k0 a) with
      | some b => ⟨a.null, copyRow P.w0 a ++ copyNonkey P b⟩
      | none => ⟨a.null, copyRow P.w0 a ++ zerosExtra P⟩

/-- position of `j` in `ks` -/
def posOf (j : Nat) : List Nat → Option Nat
  | [] => none
  | k :: ks => if k = j then some 0 else (posOf j ks).map (· + 1)

/-- Where the second walk of `get_union_columns` takes result column `j` of the first table from:
    a key column → the paired key column of the second table; otherwise, if `shared` (full join:
    the second table is `left(b, a)` and carries the non-key columns of the first table behind its
    own `n1` columns — `same_headers`) that copy, else nothing (zero entry). -/
def src0 (P : Plan) (shared : Bool) (j : Nat) : Option Nat :=
  match posOf j P.k0 with
  | some i => some (P.k1.getD i 0)
  | none =>
    if shared then (posOf j (nonkey P.k0 P.w0)).map (· + P.w1.length) else none

/-- one result row made from a row `b` of the second table (second loop of `get_union_columns`) -/
def liftRow (P : Plan) (shared : Bool) (b : Row) : Row :=
  ⟨true,
    (List.range P.w0.length).map (fun j =>
        match src0 P shared j with
        | some p => copyCell (widthAt P.w0 j) (cellAt b p)
        | none => zeroCell (widthAt P.w0 j))
    ++ copyNonkey P b⟩

/-- `get_union_columns`.  `shared = false`: the union join proper.  `shared = true`: the call made
    by `evaluate_full_join`, where the second table has the columns of `b` followed by the non-key
    columns of `a` (`same_headers` non-empty); the result columns are the same. -/
def implUnionG (P : Plan) (shared : Bool) (A L : Table) : Table :=
  let m := buildMap P.k1 L
  (A.map fun a =>
    if a.null = false then zeroRow (resW P)
    else if hasEmpty P.k0 a then ⟨a.null, copyRow P.w0 a ++ zerosExtra P⟩
    else match lookup m (rowKey P.k0 a) with
      | some _ => zeroRow (resW P)
      | none => ⟨a.null, copyRow P.w0 a ++ zerosExtra P⟩)
  ++
  (L.map fun b => if b.null = false then zeroRow (resW P) else liftRow P shared b)

def implUnion (P : Plan) (A B : Table) : Table := implUnionG P false A B

/-- `evaluate_full_join`: `union(a, left(b, a))` -/
def implFull (P : Plan) (A B : Table) : Table :=
  implUnionG P true A (implLeft P.swap B A)

def impl : JoinType → Plan → Table → Table → Table
  | .inner => implInner
  | .left => implLeft
  | .union => implUnion
  | .full => implFull

/-! ### specification layer (from the documentation) -/

/-- a row takes part in matching: NULL_HEADER is one and every key mask element is one -/
def live (ks : List Nat) (r : Row) : Bool :=
  r.null && ks.all (fun j => (cellAt r j).mask)

/-- "the" row of `T` with the same row key: a live row whose key equals `k` -/
def findMatch (ks : List Nat) (T : Table) (k : List Int) : Option Row :=
  T.find? (fun r => live ks r && decide (rowKey ks r = k))

/-- the match of row `a` of the first table in the second table, if `a` is live -/
def matchOf (P : Plan) (B : Table) (a : Row) : Option Row :=
  if live P.k0 a then findMatch P.k1 B (rowKey P.k0 a) else none

/-- a row of the first table merged with a row of the second one -/
def merged (P : Plan) (a b : Row) : Row := ⟨true, copyRow P.w0 a ++ copyNonkey P b⟩

/-- a row of the first table, zeros in the columns of the second one -/
def padded (P : Plan) (a : Row) : Row := ⟨true, copyRow P.w0 a ++ zerosExtra P⟩

/-- Inner join: rows where the input tables have matching row keys (positions of the first table) -/
def specInner (P : Plan) (A B : Table) : Table :=
  A.map fun a => match matchOf P B a with
    | some b => merged P a b
    | none => zeroRow (resW P)

/-- Left join: all the rows of the first table, merged with the rows of the second one with the same key -/
def specLeft (P : Plan) (A B : Table) : Table :=
  A.map fun a =>
    if a.null then
      match matchOf P B a with
      | some b => merged P a b
      | none => padded P a
    else zeroRow (resW P)

/-- rows of the first table that are not in the inner join (their slots are kept, emptied) -/
def notInInner (P : Plan) (A B : Table) : Table :=
  A.map fun a =>
    if a.null && (matchOf P B a).isNone then padded P a else zeroRow (resW P)

/-- Union join: rows of the first table that are not in the inner join, then all rows of the
    second table (zeros in the non-key columns of the first table) -/
def specUnionG (P : Plan) (shared : Bool) (A B : Table) : Table :=
  notInInner P A B ++ B.map fun b => if b.null then liftRow P shared b else zeroRow (resW P)

def specUnion (P : Plan) (A B : Table) : Table := specUnionG P false A B

/-- a row `b` of the second table merged with its match `a` in the first one, in the column order
    of the result: key columns from `b`, the other columns of the first table from `a` -/
def mergedB (P : Plan) (b : Row) (a : Option Row) : Row :=
  ⟨true,
    (List.range P.w0.length).map (fun j =>
        match posOf j P.k0 with
        | some i => copyCell (widthAt P.w0 j) (cellAt b (P.k1.getD i 0))
        | none =>
          match a with
          | some a => copyCell (widthAt P.w0 j) (cellAt a j)
          | none => zeroCell (widthAt P.w0 j))
    ++ copyNonkey P b⟩

/-- Full join: 1. the rows of the first table that don't belong to the inner join, 2. all the rows
    of the second table, those with a match merged with it -/
def specFull (P : Plan) (A B : Table) : Table :=
  notInInner P A B ++ B.map fun b =>
    if b.null then mergedB P b (matchOf P.swap A b) else zeroRow (resW P)

def spec : JoinType → Plan → Table → Table → Table
  | .inner => specInner
  | .left => specLeft
  | .union => specUnion
  | .full => specFull

/-! ### the documented precondition and the inferred row count -/

/-- keys of the rows that take part in matching -/
def liveKeys (ks : List Nat) (T : Table) : List (List Int) :=
  (T.filter (live ks)).map (rowKey ks)

/-- "Rows must have unique row keys, except for rows where NULL_HEADER is zero [or a key mask is zero]" -/
def UniqueLive (ks : List Nat) (T : Table) : Prop := (liveKeys ks T).Nodup

instance (ks : List Nat) (T : Table) : Decidable (UniqueLive ks T) := by
  unfold UniqueLive; infer_instance

/-- `res_num_entries` of `join_inference` -/
def inferredRows (t : JoinType) (n0 n1 : Nat) : Nat :=
  match t with
  | .inner | .left => n0
  | .union | .full => n0 + n1

/-- every row has one cell per column with the declared number of elements -/
def WellFormed (ws : List Nat) (T : Table) : Prop :=
  ∀ r ∈ T, r.cells.map (fun c => c.data.length) = ws

/-- the positions of a plan point into the tables; the first-table key headers are distinct
    (they are the keys of the `headers` hash map), the pairs are aligned -/
def Plan.ok (P : Plan) : Prop :=
  P.k0.length = P.k1.length ∧ (∀ j ∈ P.k0, j < P.w0.length) ∧ (∀ j ∈ P.k1, j < P.w1.length) ∧ P.k0.Nodup

end CCV.Join
