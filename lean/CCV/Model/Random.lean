/-
  Model of ciphercore-base/src/random.rs (`PrfSession`, `Prf`, `PRNG`) and of the PRF / PRNG use in
  evaluators/simple_evaluator.rs (`shuffle_array`, the per-key PRF cache).  Import-free.

  AES is NOT modelled.  A session is a function of the counter-mode block stream
  `blocks : Nat → List Nat`:  `blocks i` = the 16 bytes `AES_k(le128(iv·2^64 + i))` that
  `generate_one_batch` produces for the i-th counter value of the session (`self.input` starts at
  `(input as u128) << 64` and is incremented once per block).  Bytes are `Nat`s < 256.

  Errors: `.error "div0"` — the Rust code panics (`% 0`); `.error "fuel"` — a rejection-sampling
  loop did not accept within the given number of draws (the Rust loop is unbounded);
  `.error "diverge"` — `fill_random_bytes` would loop forever (only for a zero-sized buffer).
-/
namespace CCV.Random

/-- `BLOCK_SIZE` -/
def BLOCK_SIZE : Nat := 16
/-- `BUFFER_SIZE` -/
def BUFFER_SIZE : Nat := 512
/-- `INITIAL_BUFFER_SIZE` -/
def INITIAL_BUFFER_SIZE : Nat := 64

/-- `u64::from_le_bytes` / `vec_u64_from_bytes(.., UINT64)[0]` on a byte slice -/
def leValue : List Nat → Nat
  | [] => 0
  | b :: bs => b + 256 * leValue bs

/-- `PrfSession`.  `ctr` = number of blocks generated so far, i.e. `self.input - (input << 64)`. -/
structure Session where
  ctr : Nat
  buffer : List Nat
  nextByte : Nat
  curSize : Nat
  nextSize : Nat
  deriving Repr

/-- `PrfSession::new(input, initial_buffer_size)` (rounding up to a multiple of `BLOCK_SIZE`). -/
def Session.new (initialBufferSize : Nat) : Session :=
  let sz := (initialBufferSize + BLOCK_SIZE - 1) / BLOCK_SIZE * BLOCK_SIZE
  { ctr := 0, buffer := List.replicate sz 0, nextByte := sz, curSize := sz, nextSize := sz }

/-- `PrfSession::generate_one_batch`: encrypt `next_buffer_size / 16` consecutive counter blocks into
    the buffer, then double `next_buffer_size` up to `BUFFER_SIZE`. -/
def oneBatch (blocks : Nat → List Nat) (s : Session) : Session :=
  let nb := s.nextSize / BLOCK_SIZE
  { ctr := s.ctr + nb,
    buffer := (List.range nb).flatMap (fun i => blocks (s.ctr + i)),
    nextByte := 0,
    curSize := s.nextSize,
    nextSize := if s.nextSize < BUFFER_SIZE then min BUFFER_SIZE (s.nextSize * 2) else s.nextSize }

/-- `&self.buffer[self.next_byte..self.current_buffer_size]` -/
def Session.ready (s : Session) : List Nat := (s.buffer.take s.curSize).drop s.nextByte

/-- the `while !buff.is_empty()` loop of `PrfSession::fill_random_bytes`; `acc` = bytes already
    written to `buff`, `need` = `buff.len()`. -/
def fillLoop (blocks : Nat → List Nat) : Nat → Session → Nat → List Nat → Except String (Session × List Nat)
  | 0, _, _, _ => .error "diverge"
  | fuel + 1, s, need, acc =>
    if need = 0 then .ok (s, acc)
    else
      let ready := s.ready
      if need ≤ ready.length then
        .ok ({ s with nextByte := s.nextByte + need }, acc ++ ready.take need)
      else
        fillLoop blocks fuel (oneBatch blocks { s with nextByte := 0 }) (need - ready.length) (acc ++ ready)

/-- `PrfSession::generate_random_bytes(aes, n)` (every iteration but the first delivers ≥ 16 bytes,
    so `n + 1` iterations always suffice unless the buffer size is 0). -/
def generateRandomBytes (blocks : Nat → List Nat) (s : Session) (n : Nat) : Except String (Session × List Nat) :=
  fillLoop blocks (n + 1) s n []

/-- a sequence of `generate_random_bytes` calls on one session (hook `prf_session_reads`) -/
def readMany (blocks : Nat → List Nat) : Session → List Nat → Except String (Session × List (List Nat))
  | s, [] => .ok (s, [])
  | s, n :: ns =>
    match generateRandomBytes blocks s n with
    | .error e => .error e
    | .ok (s', bs) =>
      match readMany blocks s' ns with
      | .error e => .error e
      | .ok (s'', rest) => .ok (s'', bs :: rest)

/-- `PrfSession::generate_random_number_const::<NEED_BYTES>`: returns the new session and the number. -/
def randomNumber (blocks : Nat → List Nat) (s : Session) (need : Nat) : Session × Nat :=
  let use := min (s.curSize - s.nextByte) need
  let res := (s.buffer.drop s.nextByte).take use
  if use = need then
    ({ s with nextByte := s.nextByte + use }, leValue res % 2 ^ (8 * need))
  else
    let s' := oneBatch blocks s
    let rest := need - use
    ({ s' with nextByte := rest }, leValue (res ++ s'.buffer.take rest) % 2 ^ (8 * need))

/-- smallest `k' ≥ k` with `m ≤ 2^k'` (fuel-bounded) -/
def clog2Aux (m : Nat) : Nat → Nat → Nat
  | 0, k => k
  | fuel + 1, k => if m ≤ 2 ^ k then k else clog2Aux m fuel (k + 1)

/-- `modulus.next_power_of_two().trailing_zeros()` = ⌈log₂ m⌉ (0 for m ≤ 1) -/
def clog2 (m : Nat) : Nat := clog2Aux m m 0

/-- `need_bytes` of `generate_u32_in_range` -/
def needBytes (m : Nat) : Nat := (clog2 m + 7) / 8 + 1

/-- `rejection_bound` of `generate_u32_in_range` for a draw space of `nb` bytes:
    `max_rand_value - (max_rand_value + 1) % modulus`. -/
def rejectionBound (m nb : Nat) : Nat :=
  let maxRand := 2 ^ (nb * 8) - 1
  let numBiased := (maxRand + 1) % m
  maxRand - numBiased

/-- the `loop` of `generate_u32_in_range`; `fuel` bounds the number of draws. -/
def u32Loop (blocks : Nat → List Nat) (m nb bound : Nat) : Nat → Session → Except String (Session × Nat)
  | 0, _ => .error "fuel"
  | fuel + 1, s =>
    let (s', r) := randomNumber blocks s nb
    if r ≤ bound then .ok (s', r % m) else u32Loop blocks m nb bound fuel s'

/-- `PrfSession::generate_u32_in_range(aes, modulus)`; `modulus = 0` panics in Rust (`% 0`). -/
def u32InRange (blocks : Nat → List Nat) (fuel : Nat) (s : Session) (m : Nat) : Except String (Session × Nat) :=
  if m = 0 then .error "div0"
  else u32Loop blocks m (needBytes m) (rejectionBound m (needBytes m)) fuel s

/-- a sequence of `generate_u32_in_range` calls on one session (hook `prf_session_u32_in_range`) -/
def u32Many (blocks : Nat → List Nat) (fuel : Nat) : Session → List Nat → Except String (Session × List Nat)
  | s, [] => .ok (s, [])
  | s, m :: ms =>
    match u32InRange blocks fuel s m with
    | .error e => .error e
    | .ok (s', r) =>
      match u32Many blocks fuel s' ms with
      | .error e => .error e
      | .ok (s'', rest) => .ok (s'', r :: rest)

/-! ### values -/

/-- the part of `Type` that value generation looks at: scalar/array (scalar bit size, shape; a scalar
    has the empty shape), tuple / named tuple (component types), vector. -/
inductive RTy where
  | arr (sbits : Nat) (dims : List Nat)
  | tup (ts : List RTy)
  | vec (n : Nat) (t : RTy)
  deriving Repr

/-- `Value`: `from_bytes` / `from_vector` -/
inductive RVal where
  | bytes (bs : List Nat)
  | vec (vs : List RVal)
  deriving Repr

/-- `get_size_in_bits` for scalars and arrays -/
def arrBits (sbits : Nat) (dims : List Nat) : Nat := sbits * dims.foldl (· * ·) 1

/-- `*bytes.last_mut().unwrap() >>= k` when `bytes` is not empty -/
def flushLast : List Nat → Nat → List Nat
  | [], _ => []
  | [b], k => [b / 2 ^ k]
  | b :: c :: rest, k => b :: flushLast (c :: rest) k

/-- the scalar / array arm of `recursively_generate_value` (and of `PRNG::get_random_value`) -/
def genLeaf (blocks : Nat → List Nat) (s : Session) (bitSize : Nat) : Except String (Session × RVal) :=
  let byteSize := (bitSize + 7) / 8
  let bitsToFlush := 8 * byteSize - bitSize
  match generateRandomBytes blocks s byteSize with
  | .error e => .error e
  | .ok (s', bytes) => .ok (s', .bytes (flushLast bytes bitsToFlush))

/-- run `f` `n` times threading the session (`for sub_t in ts` over `n` copies of one type) -/
def repeatGen (f : Session → Except String (Session × RVal)) : Nat → Session → Except String (Session × List RVal)
  | 0, s => .ok (s, [])
  | n + 1, s =>
    match f s with
    | .error e => .error e
    | .ok (s', v) =>
      match repeatGen f n s' with
      | .error e => .error e
      | .ok (s'', vs) => .ok (s'', v :: vs)

mutual
/-- `PrfSession::recursively_generate_value` (`PRNG::get_random_value` is the same code over the
    PRNG's own session). -/
def genValue (blocks : Nat → List Nat) : RTy → Session → Except String (Session × RVal)
  | .arr sbits dims, s => genLeaf blocks s (arrBits sbits dims)
  | .tup ts, s =>
    match genList blocks ts s with
    | .error e => .error e
    | .ok (s', vs) => .ok (s', .vec vs)
  | .vec n t, s =>
    match repeatGen (genValue blocks t) n s with
    | .error e => .error e
    | .ok (s', vs) => .ok (s', .vec vs)
/-- `for sub_t in get_types_vector(tp)` -/
def genList (blocks : Nat → List Nat) : List RTy → Session → Except String (Session × List RVal)
  | [], s => .ok (s, [])
  | t :: ts, s =>
    match genValue blocks t s with
    | .error e => .error e
    | .ok (s', v) =>
      match genList blocks ts s' with
      | .error e => .error e
      | .ok (s'', vs) => .ok (s'', v :: vs)
end

/-- `Prf::output_value(input, t)` as a function of the key stream of (key, input). The code uses
    `initial_buffer_size = INITIAL_BUFFER_SIZE`; it is a parameter here so that the theorems can say
    that it does not matter. -/
def prfValue (blocks : Nat → List Nat) (initialBufferSize : Nat) (t : RTy) : Except String RVal :=
  match genValue blocks t (Session.new initialBufferSize) with
  | .error e => .error e
  | .ok (_, v) => .ok v

/-! ### permutations -/

/-- `a.swap(i, j)` on a list (no-op out of bounds; Rust would panic) -/
def swap (a : List Nat) (i j : Nat) : List Nat :=
  (a.set i (a.getD j 0)).set j (a.getD i 0)

/-- the loop `for i in 1..n { j = generate_u32_in_range(i+1); a.swap(i, j) }` of
    `Prf::output_permutation`, `steps` iterations starting at index `i`. -/
def permLoop (blocks : Nat → List Nat) (fuel : Nat) : Nat → Nat → Session → List Nat → Except String (Session × List Nat)
  | 0, _, s, a => .ok (s, a)
  | steps + 1, i, s, a =>
    match u32InRange blocks fuel s (i + 1) with
    | .error e => .error e
    | .ok (s', j) => permLoop blocks fuel steps (i + 1) s' (swap a i j)

/-- `Prf::output_permutation(input, n)` as a function of the key stream; `n > 2^30` is an error. -/
def outputPermutation (blocks : Nat → List Nat) (fuel : Nat) (n : Nat) : Except String (List Nat) :=
  if n > 2 ^ 30 then .error "n should be less than 2^30"
  else
    let s := Session.new (min BUFFER_SIZE n)
    match permLoop blocks fuel (n - 1) 1 s (List.range n) with
    | .error e => .error e
    | .ok (_, a) => .ok a

/-- the swaps of `output_permutation` alone, for a given sequence of draws `js` (the k-th draw is used
    at index `i + k`). -/
def applySwaps : List Nat → Nat → List Nat → List Nat
  | a, _, [] => a
  | a, i, j :: js => applySwaps (swap a i j) (i + 1) js

/-! ### PRNG -/

/-- `rejection_bound` of `PRNG::get_random_in_range`: `u64::MAX - ((u64::MAX % m) + 1) % m`. -/
def rejectionBound64 (m : Nat) : Nat :=
  let u64max := 2 ^ 64 - 1
  let rem := ((u64max % m) + 1) % m
  u64max - rem

/-- the `loop` of `PRNG::get_random_in_range(Some(m))` -/
def range64Loop (blocks : Nat → List Nat) (m bound : Nat) : Nat → Session → Except String (Session × Nat)
  | 0, _ => .error "fuel"
  | fuel + 1, s =>
    match generateRandomBytes blocks s 8 with
    | .error e => .error e
    | .ok (s', bs) =>
      let r := leValue bs
      if r ≤ bound then .ok (s', r % m) else range64Loop blocks m bound fuel s'

/-- `PRNG::get_random_in_range(modulus)`; `Some(0)` panics in Rust (`u64::MAX % 0`). -/
def getRandomInRange (blocks : Nat → List Nat) (fuel : Nat) (s : Session) : Option Nat → Except String (Session × Nat)
  | some m =>
    if m = 0 then .error "div0"
    else range64Loop blocks m (rejectionBound64 m) fuel s
  | none =>
    match generateRandomBytes blocks s 8 with
    | .error e => .error e
    | .ok (s', bs) => .ok (s', leValue bs)

/-- `shuffle_array` (simple_evaluator.rs): `for i in (1..len).rev() { j = in_range(i+1); swap(j, i) }`;
    `i1` = `i + 1` counts down. -/
def shuffleLoop (blocks : Nat → List Nat) (fuel : Nat) : Nat → Session → List Nat → Except String (Session × List Nat)
  | 0, s, a => .ok (s, a)
  | i + 1, s, a =>
    if i = 0 then .ok (s, a)
    else
      match getRandomInRange blocks fuel s (some (i + 1)) with
      | .error e => .error e
      | .ok (s', j) => shuffleLoop blocks fuel i s' (swap a j i)

def shuffleArray (blocks : Nat → List Nat) (fuel : Nat) (s : Session) (a : List Nat) : Except String (Session × List Nat) :=
  shuffleLoop blocks fuel a.length s a

/-- what an evaluator asks of its PRNG: `Random(t)` / `RandomPermutation(n)` nodes and direct
    `get_random_in_range` / `get_random_bytes` calls. -/
inductive PrngOp where
  | value (t : RTy)
  | perm (n : Nat)
  | inRange (m : Option Nat)
  | bytes (n : Nat)

inductive PrngOut where
  | value (v : RVal)
  | list (xs : List Nat)
  | num (x : Nat)

/-- one PRNG operation on the PRNG's session (`PRNG::new` creates it with `BUFFER_SIZE`). -/
def prngStep (blocks : Nat → List Nat) (fuel : Nat) (s : Session) : PrngOp → Except String (Session × PrngOut)
  | .value t => match genValue blocks t s with
    | .error e => .error e
    | .ok (s', v) => .ok (s', .value v)
  | .perm n => match shuffleArray blocks fuel s (List.range n) with
    | .error e => .error e
    | .ok (s', a) => .ok (s', .list a)
  | .inRange m => match getRandomInRange blocks fuel s m with
    | .error e => .error e
    | .ok (s', x) => .ok (s', .num x)
  | .bytes n => match generateRandomBytes blocks s n with
    | .error e => .error e
    | .ok (s', bs) => .ok (s', .list bs)

/-- a PRNG with a fixed seed answering a sequence of operations -/
def prngRun (blocks : Nat → List Nat) (fuel : Nat) : Session → List PrngOp → Except String (Session × List PrngOut)
  | s, [] => .ok (s, [])
  | s, op :: ops =>
    match prngStep blocks fuel s op with
    | .error e => .error e
    | .ok (s', o) =>
      match prngRun blocks fuel s' ops with
      | .error e => .error e
      | .ok (s'', os) => .ok (s'', o :: os)

/-! ### the evaluator's per-key PRF cache (simple_evaluator.rs, `Operation::PRF` / `PermutationFromPRF`) -/

/-- A `Prf` object is its AES instance, i.e. the family of block streams `iv ↦ blocks`. The cache
    `prfs : HashMap<Vec<u8>, Prf>` is an association list from keys (as numbers) to such families. -/
abbrev PrfObj := Nat → Nat → List Nat
abbrev Cache := List (Nat × PrfObj)

def Cache.find (c : Cache) (key : Nat) : Option PrfObj :=
  match c with
  | [] => none
  | (k, p) :: rest => if k = key then some p else Cache.find rest key

/-- the `match self.prfs.entry(key)` of both PRF operations: a vacant entry creates `Prf::new(key)`
    (`mk key`) and stores it, an occupied one is reused. Returns the Prf to use and the new cache. -/
def Cache.entry (mk : Nat → PrfObj) (c : Cache) (key : Nat) : PrfObj × Cache :=
  match c.find key with
  | some p => (p, c)
  | none => (mk key, (key, mk key) :: c)

inductive PrfOp where
  | value (key iv : Nat) (t : RTy)
  | perm (key iv n : Nat)

inductive PrfOut where
  | value (v : Except String RVal)
  | perm (p : Except String (List Nat))

/-- evaluation of one PRF / PermutationFromPRF node -/
def prfNode (mk : Nat → PrfObj) (fuel : Nat) (c : Cache) : PrfOp → PrfOut × Cache
  | .value key iv t =>
    let (p, c') := Cache.entry mk c key
    (.value (prfValue (p iv) INITIAL_BUFFER_SIZE t), c')
  | .perm key iv n =>
    let (p, c') := Cache.entry mk c key
    (.perm (outputPermutation (p iv) fuel n), c')

/-- an evaluator instance evaluating a sequence of PRF nodes, starting from cache `c` -/
def prfNodes (mk : Nat → PrfObj) (fuel : Nat) : Cache → List PrfOp → List PrfOut
  | _, [] => []
  | c, op :: ops =>
    let (o, c') := prfNode mk fuel c op
    o :: prfNodes mk fuel c' ops

end CCV.Random
