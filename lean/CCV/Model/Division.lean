import CCV.Model.Adder
import CCV.Model.Mux
import CCV.Model.Clip
/-
  Model of `ciphercore-base/src/ops/long_division.rs` (`LongDivision::instantiate`,
  `single_iteration_graph`, `adjust_negative`, `abs`, `negative`, `add_one`, `invert_bits`) on one
  (dividend, divisor) pair of little-endian bit strings.  The nested custom operations report errors
  at instantiation time; here all those conditions are checked up front (`longDivision`) and the
  data path (`…Core`) is total.
-/
namespace CCV.Division
open CCV.Adder CCV.Mux CCV.Clip

/-- `invert_bits` (`Not`). -/
def invertBits (x : List Bool) : List Bool := x.map notBit

/-- `add_one`: `BinaryAdd{overflow_bit: false}(x, [1, 0, …, 0])`. -/
def addOne (x : List Bool) : List Bool :=
  (addCore false x (true :: List.replicate (x.length - 1) false)).1

/-- `negative`: two's complement. -/
def negative (x : List Bool) : List Bool := addOne (invertBits x)

/-- `is_negative`: the last bit. -/
def isNegative (x : List Bool) : Bool := x.getD (x.length - 1) false

/-- `abs(binary_num, is_signed)`: `(is_negative, Mux(is_negative, -x, x))`, or `(0, x)` when unsigned. -/
def abs (signed : Bool) (x : List Bool) : Bool × List Bool :=
  if signed then (isNegative x, muxBits (isNegative x) (negative x) x) else (false, x)

/-- `single_iteration_graph`: the state is `(remainder, -|divisor|)`; the most significant bit of the
    remainder is taken off (`remainder[-1:]`, `remainder[..-1]`), the next dividend bit is put in front
    (least significant position), `-|divisor|` is added with the overflow bit; the next quotient bit is
    `Or(dropped bit, overflow bit)` and selects the new remainder. -/
def singleIteration (minusDivisor : List Bool) (remainder : List Bool) (nextDividendBit : Bool) :
    List Bool × Bool :=
  let droppedRemainderBit := msb remainder
  let shifted := nextDividendBit :: remainder.dropLast
  let r := addCore true shifted minusDivisor
  let nextQuotientBit := orBit droppedRemainderBit (r.2.getD false)
  (muxBits nextQuotientBit r.1 shifted, nextQuotientBit)

/-- `iterate` over the dividend bits, most significant first; returns the final remainder and the
    quotient bits in iteration order (most significant first). -/
def iterateBits (minusDivisor : List Bool) : List Bool → List Bool → List Bool × List Bool
  | remainder, [] => (remainder, [])
  | remainder, b :: bs =>
    let s := singleIteration minusDivisor remainder b
    let rest := iterateBits minusDivisor s.1 bs
    (rest.1, s.2 :: rest.2)

/-- `Equal` against the zero string. -/
def isZero (x : List Bool) : Bool := x.all (fun b => b == false)

/-- `adjust_negative`. -/
def adjustNegative (quotient remainder absDivisor : List Bool) (dividendIsNegative divisorIsNegative : Bool) :
    List Bool × List Bool :=
  let resultIsNegative := xor dividendIsNegative divisorIsNegative
  let remainderIsZero := isZero remainder
  let invertedQuotient := invertBits quotient
  let negativeQuotient := addOne invertedQuotient
  let quotient' := muxBits resultIsNegative
      (muxBits remainderIsZero negativeQuotient invertedQuotient) quotient
  let positiveRemainder := muxBits remainderIsZero remainder
      (muxBits resultIsNegative (addCore false absDivisor (negative remainder)).1 remainder)
  let remainder' := muxBits divisorIsNegative (negative positiveRemainder) positiveRemainder
  (quotient', remainder')

/-- data path of `LongDivision::instantiate`. -/
def longDivisionCore (signed : Bool) (dividend divisor : List Bool) : List Bool × List Bool :=
  let a := abs signed dividend
  let d := abs signed divisor
  let negativeAbsDivisor := negative d.2
  let res := iterateBits negativeAbsDivisor (List.replicate divisor.length false) a.2.reverse
  let remainder := res.1
  let quotient := res.2.reverse
  if signed then adjustNegative quotient remainder d.2 a.1 d.1 else (quotient, remainder)

/-- `LongDivision { signed }`.  Conditions under which instantiation fails: the divisor width must be
    a power of two and at least 2 (`negative(abs_divisor)` uses `BinaryAdd` and `add_one` builds a
    `[bits-1]`-shaped zero array); in signed mode the same holds for the dividend width. -/
def longDivision (signed : Bool) (dividend divisor : List Bool) : Except String (List Bool × List Bool) :=
  let okWidth (n : Nat) : Bool := isPow2 n && decide (n ≥ 2)
  if okWidth divisor.length && (!signed || okWidth dividend.length) && decide (dividend.length ≥ 1) then
    .ok (longDivisionCore signed dividend divisor)
  else .error "unsupported widths"

/-- Specification vocabulary (not executed): floored division on integers — `a = q·d + r` and the
    remainder is zero or has the divisor's sign, with magnitude below the divisor's.  For `d ≠ 0`
    this determines `q` and `r`. -/
def FlooredDiv (a d q r : Int) : Prop := a = q * d + r ∧ ((0 ≤ r ∧ r < d) ∨ (d < r ∧ r ≤ 0))

end CCV.Division
