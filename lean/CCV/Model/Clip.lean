import CCV.Model.Mux
/-
  Model of `ciphercore-base/src/ops/clip.rs` (`Clip2K::instantiate`) on one little-endian bit
  string (interpreted as a signed integer by the operation).
-/
namespace CCV.Clip
open CCV.Mux

/-- `Not` on a bit. -/
def notBit (a : Bool) : Bool := xor a true

/-- custom operation `Or`: `Not(Not(a) * Not(b))`. -/
def orBit (a b : Bool) : Bool := notBit (notBit a && notBit b)

/-- the body after the argument checks. -/
def clipCore (k : Nat) (x : List Bool) : List Bool :=
  let numBits := x.length
  -- `input_bits.get(vec![num_bits - 1])`
  let isNegative := x.getD (numBits - 1) false
  -- `get_slice([k..])`, then `iterate(aux_or_graph, zero_bit, top_bits)`
  let topBits := x.drop k
  let isLargeOrNegative := topBits.foldl orBit false
  -- k zeros, Mux(is_negative, 0, 1), num_bits - k - 1 zeros
  let clippedValue := List.replicate k false ++ [muxBit isNegative false true]
      ++ List.replicate (numBits - k - 1) false
  muxBits isLargeOrNegative clippedValue x

/-- `Clip2K { k }`: rejected when `k >= num_bits - 1`. -/
def clip2k (k : Nat) (x : List Bool) : Except String (List Bool) :=
  if k ≥ x.length - 1 then .error "Clip(k) can be applied only whenever k <= num_bits - 2"
  else .ok (clipCore k x)

end CCV.Clip
