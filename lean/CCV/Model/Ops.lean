import CCV.Model.Scalar
import CCV.Model.Shape
import CCV.Model.Slices
import CCV.Model.Bytes
/-
  Evaluator-shaped executable semantics of the primitive operations of ciphercore
  (ciphercore-base/src/evaluators/simple_evaluator.rs, kernels of bytes.rs), on flat arrays.

  Conventions.  An array value of scalar type `st` and shape `s` is the list of its `prod s`
  stored residues `r < 2^w` (w = `st.bits`) in row-major order — exactly the bytes of the `Value`.
  The evaluator reads them with `to_flattened_array_u128` / `vec_u128_from_bytes`, which
  sign-extends signed types to 128 bits (`ext`), computes in `u128`, and writes the low
  `w` bits back with `vec_to_bytes` (`low`).  Scalars have dimensions `[1]`.
  Structural operations are modelled at the element width of the type (the code since the fix
  5b3fa60, which reads the payload with the u128 accessors; before it, Stack, Get, GetSlice,
  Concatenate, ArrayToVector, VectorToArray and gather read through `to_flattened_array_u64`,
  see `viaU64`).
-/
namespace CCV.Ops
open CCV CCV.Shape CCV.Slices

/-- `ScalarType::get_modulus` -/
def modulus (st : ST) : Option Nat := if st.bits = 128 then none else some (2 ^ st.bits)

/-- element as returned by `vec_u128_from_bytes` (two's-complement sign extension to 128 bits;
    proved equal to `Bytes.signPad 128` of the little-endian bytes in C13). -/
def ext (st : ST) (r : Nat) : Nat :=
  if st.signed = true ∧ 2 ^ (st.bits - 1) ≤ r then r + (2 ^ 128 - 2 ^ st.bits) else r

/-- `vec_to_bytes` keeps the low `w` bits of every `u128` entry. -/
def low (st : ST) (x : Nat) : Nat := x % 2 ^ st.bits

/-! ### kernels of bytes.rs -/

/-- `add_u128` -/
def addU128 (a b : Nat) (m : Option Nat) : Nat :=
  match m with
  | some m => (a + b) % 2 ^ 128 % m
  | none => (a + b) % 2 ^ 128

/-- `multiply_u128` -/
def mulU128 (a b : Nat) (m : Option Nat) : Nat :=
  match m with
  | some m => (a * b) % 2 ^ 128 % m
  | none => (a * b) % 2 ^ 128

/-- one element of `subtract_vectors_u128`: `u128::wrapping_sub`, then `% m`. -/
def subU128 (a b : Nat) (m : Option Nat) : Nat :=
  match m with
  | some m => (a + (2 ^ 128 - b % 2 ^ 128)) % 2 ^ 128 % m
  | none => (a + (2 ^ 128 - b % 2 ^ 128)) % 2 ^ 128

/-- `add_u64`: with a modulus `(v1 as u128 + v2 as u128) % m`, else `wrapping_add`. -/
def addU64 (a b : Nat) (m : Option Nat) : Nat :=
  match m with
  | some m => (a + b) % m
  | none => (a + b) % 2 ^ 64

/-- `multiply_u64` -/
def mulU64 (a b : Nat) (m : Option Nat) : Nat :=
  match m with
  | some m => (a * b) % m
  | none => (a * b) % 2 ^ 64

/-- one element of `subtract_vectors_u64`: `(v1 + (m - v2 % m)) % m`, else `wrapping_sub`. -/
def subU64 (a b : Nat) (m : Option Nat) : Nat :=
  match m with
  | some m => (a + (m - b % m)) % m
  | none => (a + (2 ^ 64 - b % 2 ^ 64)) % 2 ^ 64

/-- `*_vectors_*`: length check, then element by element. -/
def zipK (f : Nat → Nat → Option Nat → Nat) (xs ys : List Nat) (m : Option Nat) :
    Except String (List Nat) :=
  if xs.length ≠ ys.length then .error "Vectors of different lengths"
  else .ok (List.zipWith (fun a b => f a b m) xs ys)

/-- loop of `dot_vectors_*` / of the inner `j` loop of dot and matmul:
    `res = add(res, multiply(x_j, y_j, m), m)`. -/
def dotFold (add mul : Nat → Nat → Option Nat → Nat) (m : Option Nat) (ps : List (Nat × Nat)) : Nat :=
  ps.foldl (fun res p => add res (mul p.1 p.2 m) m) 0

/-- `dot_vectors_u128` -/
def dotU128 (xs ys : List Nat) (m : Option Nat) : Except String Nat :=
  if xs.length ≠ ys.length then .error "Vectors of different lengths"
  else .ok (dotFold addU128 mulU128 m (xs.zip ys))

/-- `dot_vectors_u64` -/
def dotU64 (xs ys : List Nat) (m : Option Nat) : Except String Nat :=
  if xs.length ≠ ys.length then .error "Vectors of different lengths"
  else .ok (dotFold addU64 mulU64 m (xs.zip ys))

/-- `sum_vector_u64` -/
def sumU64 (xs : List Nat) (m : Option Nat) : Nat := xs.foldl (fun res a => addU64 res a m) 0

/-! ### arithmetic with broadcasting -/

inductive Arith where
  | add | sub | mul
  deriving DecidableEq, Repr

def Arith.kernel : Arith → Nat → Nat → Option Nat → Nat
  | .add => addU128
  | .sub => subU128
  | .mul => mulU128

/-- `evaluate_add_subtract_multiply`: both operands are read as sign-extended u128, broadcast to
    the result dimensions, combined by the vector kernel with `st.get_modulus()`, written back. -/
def arith (op : Arith) (st : ST) (s1 xs s2 ys sr : List Nat) : Except String (List Nat) :=
  let a := broadcastToShape (xs.map (ext st)) s1 sr
  let b := broadcastToShape (ys.map (ext st)) s2 sr
  match zipK op.kernel a b (modulus st) with
  | .error e => .error e
  | .ok r => .ok (r.map (low st))

/-- `evaluate_mixed_multiply`: the second operand is a bit array (read with scalar type BIT). -/
def mixedMultiply (st : ST) (s1 xs s2 bits sr : List Nat) : Except String (List Nat) :=
  let a := broadcastToShape (xs.map (ext st)) s1 sr
  let b := broadcastToShape bits s2 sr
  match zipK mulU128 a b (modulus st) with
  | .error e => .error e
  | .ok r => .ok (r.map (low st))

/-! ### dot / matmul / gemm -/

/-- inner accumulation `for j in 0..k { res = add_u128(res, multiply_u128(e0[f0 j], e1[f1 j])) }` -/
def dotAcc (m : Option Nat) (e0 e1 : List Nat) (f0 f1 : Nat → Nat) (k : Nat) : Nat :=
  dotFold addU128 mulU128 m ((List.range k).map fun j => (e0.getD (f0 j) 0, e1.getD (f1 j) 0))

/-- `Vec::insert(k, v)` -/
def insertAt (l : List Nat) (k v : Nat) : List Nat := l.take k ++ [v] ++ l.drop k

/-- `evaluate_dot` for two arrays (`sr` = result shape, ignored for 1-d · 1-d). -/
def dot (st : ST) (s0 xs s1 ys sr : List Nat) : List Nat :=
  let e0 := xs.map (ext st)
  let e1 := ys.map (ext st)
  let m := modulus st
  if s0.length = 1 ∧ s1.length = 1 then
    [low st (dotAcc m e0 e1 id id (s0.headD 0))]
  else
    let middle := if 1 < s1.length then s1.getD (s1.length - 2) 0 else s1.headD 0
    (List.range (prod sr)).map fun i =>
      let ri := numberToIndex i sr
      low st (dotAcc m e0 e1
        (fun j => indexToNumber (ri.take (s0.length - 1) ++ [j]) s0)
        (fun j =>
          if 1 < s1.length then
            let ix := ri.drop (s0.length - 1)
            indexToNumber (insertAt ix (ix.length - 1) j) s1
          else indexToNumber [j] s1)
        middle)

/-- `evaluate_matmul` (`sr` = result shape of the type checker; ignored for 1-d · 1-d). -/
def matmul (st : ST) (s0 xs s1 ys sr : List Nat) : List Nat :=
  let e0 := xs.map (ext st)
  let e1 := ys.map (ext st)
  let m := modulus st
  if s0.length = 1 ∧ s1.length = 1 then
    [low st (dotAcc m e0 e1 id id (s0.headD 0))]
  else
    -- insert 1-dims for the rank-1 cases
    let s0' := if s0.length = 1 then 1 :: s0 else s0
    let sr1 := if s0.length = 1 then insertAt sr (sr.length - 1) 1 else sr
    let s1' := if s1.length = 1 then s1 ++ [1] else s1
    let sr2 := if s1.length = 1 then sr1 ++ [1] else sr1
    let middle := s1'.getD (s1'.length - 2) 0
    let rl := sr2.length
    (List.range (prod sr)).map fun i =>
      let ri := numberToIndex i sr2
      low st (dotAcc m e0 e1
        (fun j => indexToNumber (((ri.drop (rl - s0'.length)).take (s0'.length - 1)) ++ [j]) s0')
        (fun j => indexToNumber ((ri.drop (rl - s1'.length)).set (s1'.length - 2) j) s1')
        middle)

/-- `evaluate_permute_axes`: `result[index_to_number(perm ∘ old_index, output_shape)] = values[i]`. -/
def permuteAxes (values curShape perm outShape : List Nat) : List Nat :=
  (List.range values.length).foldl (fun res i =>
    let old := numberToIndex i curShape
    let new := perm.map fun j => old.getD j 0
    res.set (indexToNumber new outShape) (values.getD i 0)) (List.replicate values.length 0)

/-- `transpose_permutation` -/
def transposePermutation (n : Nat) : List Nat :=
  if n = 1 then [0] else (List.range (n - 2)) ++ [n - 1, n - 2]

/-- `evaluate_transpose_array` -/
def transposeArray (values shape : List Nat) : List Nat :=
  let out := transposeShape shape true
  permuteAxes values shape (transposePermutation out.length) out

/-- `&entries[a .. a + n]` -/
def slice (l : List Nat) (a n : Nat) : List Nat := (l.drop a).take n

/-- `general_gemm` on operands already brought to the form `…×n0×k`, `…×n1×k`. -/
def generalGemm (st : ST) (e0 s0 e1 s1 sr : List Nat) : Except String (List Nat) :=
  let rowSize := s1.getD (s1.length - 1) 0
  let m := modulus st
  let n0 := s0.getD (s0.length - 2) 0
  let n1 := s1.getD (s1.length - 2) 0
  let msize := n0 * n1
  let resLen := prod sr
  -- `(0..result_length).step_by(msize)`
  let starts := (List.range ((resLen + msize - 1) / msize)).map (· * msize)
  (starts.flatMap fun mi =>
    let start := numberToIndex mi sr
    let ms0 := indexToNumber (start.drop (sr.length - s0.length)) s0
    let ms1 := indexToNumber (start.drop (sr.length - s1.length)) s1
    (List.range n0).flatMap fun i =>
      (List.range n1).map fun j =>
        dotU128 (slice e0 (ms0 + i * rowSize) rowSize) (slice e1 (ms1 + j * rowSize) rowSize) m).mapM id

/-- `evaluate_gemm` -/
def gemm (st : ST) (t0 t1 : Bool) (s0 xs s1 ys sr : List Nat) : Except String (List Nat) :=
  let e0 := xs.map (ext st)
  let e1 := ys.map (ext st)
  let v0 := if t0 then transposeArray e0 s0 else e0
  let v1 := if !t1 then transposeArray e1 s1 else e1
  match generalGemm st v0 (transposeShape s0 t0) v1 (transposeShape s1 (!t1)) sr with
  | .error e => .error e
  | .ok r => .ok (r.map (low st))

/-! ### sum / cumulative sum -/

/-- `evaluate_sum`; `sr = none` is the scalar result (all axes summed). -/
def sum (st : ST) (shape xs axes : List Nat) (sr : Option (List Nat)) : List Nat :=
  let values := xs.map (ext st)
  let m := modulus st
  match sr with
  | none => [low st (values.foldl (fun res v => addU128 res v m) 0)]
  | some resShape =>
    if axes.isEmpty then xs
    else
      let resAxes := (List.range shape.length).filter fun j => !axes.contains j
      let result := (List.range values.length).foldl (fun res i =>
        let inpIndex := numberToIndex i shape
        let newIndex := resAxes.map fun ax => inpIndex.getD ax 0
        let newI := indexToNumber newIndex resShape
        res.set newI (addU128 (res.getD newI 0) (values.getD i 0) m)) (List.replicate (prod resShape) 0)
      result.map (low st)

/-- `evaluate_cum_sum`: in place, `out[i] += out[i - stride(axis)]` whenever `index[axis] > 0`. -/
def cumSum (st : ST) (shape xs : List Nat) (axis : Nat) : List Nat :=
  let inVec := xs.map (ext st)
  let m := modulus st
  let out := (List.range inVec.length).foldl (fun out i =>
    let index := numberToIndex i shape
    if 0 < index.getD axis 0 then
      let j := indexToNumber (index.set axis (index.getD axis 0 - 1)) shape
      out.set i (addU128 (out.getD i 0) (out.getD j 0) m)
    else out) inVec
  out.map (low st)

/-! ### structural operations (element width of the type) -/

/-- what `to_flattened_array_u64` returns for the elements `xs`: `x as u64`.  The structural
    operations read their payload like this before the fix 5b3fa60 (kept to state the witness
    `C10.u64_truncation_witness`; not used by any modelled operation). -/
def viaU64 (xs : List Nat) : List Nat := xs.map (· % 2 ^ 64)

/-- `Operation::Get(sub_index)`: the `sub_index_num`-th chunk of `res_len` elements. -/
def get (shape xs subIndex : List Nat) : List Nat :=
  let resLen := prod (shape.drop subIndex.length)
  let n := indexToNumber subIndex (shape.take subIndex.length)
  slice xs (n * resLen) resLen

/-- `Operation::GetSlice(slice)`; `resDims` = dimensions of the result type (`[1]` for a scalar). -/
def getSlice (shape xs : List Nat) (sl : List SE) (resDims : List Nat) : Except String (List Nat) :=
  (List.range (prod resDims)).mapM fun i =>
    match sliceIndex shape sl (numberToIndex i resDims) with
    | .error e => .error e
    | .ok di => .ok (xs.getD (indexToNumber di shape) 0)

/-- `Operation::Stack(outer_shape)`: every input (dimensions `[1]` for scalars) is broadcast to the
    inner shape and the results are appended. -/
def stack (outer : List Nat) (inputs : List (List Nat × List Nat)) (full : List Nat) : List Nat :=
  let inner := if full = outer then [1] else full.drop outer.length
  inputs.flatMap fun (dims, xs) => broadcastToShape xs dims inner

/-- `Operation::Concatenate(axis)` -/
def concatenate (axis : Nat) (inputs : List (List Nat × List Nat)) (sr : List Nat) : List Nat :=
  let numArrays := prod (sr.take axis)
  let itemLength := prod (sr.drop (axis + 1))
  (List.range numArrays).flatMap fun ai =>
    inputs.flatMap fun (shape, xs) =>
      let numItems := shape.getD axis 0
      slice xs (ai * numItems * itemLength) (numItems * itemLength)

/-- `chunks_exact(k)` with `k > 0` -/
def chunks (k : Nat) (xs : List Nat) : List (List Nat) :=
  (List.range (xs.length / k)).map fun i => slice xs (i * k) k

/-- `Operation::ArrayToVector`: rows of `prod shape[1..]` elements. -/
def arrayToVector (shape xs : List Nat) : List (List Nat) := chunks (prod (shape.drop 1)) xs

/-- `Operation::VectorToArray` -/
def vectorToArray (rows : List (List Nat)) : List Nat := rows.flatMap id

/-- `evaluate_gather(input, indices, _, axis)` -/
def gather (shape xs indices : List Nat) (axis : Nat) : Except String (List Nat) :=
  let numArrays := prod (shape.take axis)
  let rowSize := prod (shape.drop (axis + 1))
  let d := shape.getD axis 0
  ((List.range numArrays).flatMap fun ai =>
    indices.map fun ie =>
      if d ≤ ie then Except.error "Incorrect index"
      else Except.ok (slice xs ((ai * d + ie) * rowSize) rowSize)).mapM id |>.map (·.flatMap id)

/-- `execute_inverse_permutation` -/
def executeInversePermutation (values : List Nat) : Except String (List Nat) :=
  (List.range values.length).foldlM (fun res i =>
    let v := values.getD i 0
    if values.length ≤ v then Except.error "Input array doesn't contain a valid permutation"
    else Except.ok (res.set v i)) (List.replicate values.length 0)

/-- `Operation::InversePermutation`: duplicates are rejected first (sort + dedup shortens the
    vector iff some value occurs twice). -/
def inversePermutation (values : List Nat) : Except String (List Nat) :=
  if ¬ values.Nodup then
    .error "Input array doesn't contain a valid permutation"
  else executeInversePermutation values

/-- `Operation::ApplyPermutation(inverse)` on payload `(shape, xs)` with index array `perm`. -/
def applyPermutation (inverse : Bool) (shape xs perm : List Nat) : Except String (List Nat) :=
  let n := shape.headD 0
  if ((perm.filter (· < n)).eraseDups).length ≠ n then
    .error "Argument 1 doesn't contain a valid permutation."
  else
    match (if inverse then executeInversePermutation perm else .ok perm) with
    | .error e => .error e
    | .ok p => gather shape xs p 0

/-- `x as i128` of a u128 -/
def asI128 (x : Nat) : Int := if 2 ^ 127 ≤ x % 2 ^ 128 then (x % 2 ^ 128 : Nat) - (2 ^ 128 : Nat) else (x % 2 ^ 128 : Nat)

/-- one entry of `Operation::Truncate(scale)` (plaintext): unsigned `entry / scale`; signed:
    division of the signed value rounding toward zero, brought back to `[0, modulus)`. -/
def truncElem (st : ST) (scale : Nat) (r : Nat) : Nat :=
  let e := ext st r
  if st.signed then
    match modulus st with
    | some m =>
      let v0 := asI128 e
      let v := if ((m / 2 : Nat) : Int) ≤ v0 then v0 - m else v0
      let res := Int.tdiv v scale
      let res := if res < 0 then res + m else res
      low st (Bytes.asU128 res)
    | none => low st (Bytes.asU128 (Int.tdiv (asI128 e) scale))
  else low st (e / scale)

def truncate (st : ST) (scale : Nat) (xs : List Nat) : List Nat := xs.map (truncElem st scale)

/-- bits of a residue, least significant first (`A2B` is the identity on the bytes: the
    little-endian bytes of the elements re-read as a bit array of shape `…×w`). -/
def a2b (st : ST) (xs : List Nat) : Except String (List Nat) :=
  match Bytes.vecToBytes st (xs.map Int.ofNat) with
  | .error e => .error e
  | .ok bytes => (Bytes.vecU128FromBytes .bit bytes).map (·.take (xs.length * st.bits))

/-- `B2A(st)` is the identity on the bytes: bit array of shape `…×w` re-read with scalar type `st`
    (residues; sign extension dropped). -/
def b2a (st : ST) (bits : List Nat) : Except String (List Nat) :=
  match Bytes.vecToBytes .bit (bits.map Int.ofNat) with
  | .error e => .error e
  | .ok bytes => (Bytes.vecU128FromBytes st bytes).map (·.map (low st))

end CCV.Ops
