import CCV.Model.Scalar
/-
  Model of 3-party additive (replicated) secret sharing of typed values:
    typed_value.rs   `TypedValue::{secret_share, shard_to_shares, secret_share_reveal,
                      get_local_shares_for_each_party}`, `generalized_subtract`, `generalized_add`
    typed_value_secret_shared/replicated_shares.rs
                     `ReplicatedShares::{shard_to_shares, secret_share_for_parties, reveal}`
    mpc/utils.rs     `share_vector`
    bytes.rs         `add_u128`, `add_vectors_u128`, `subtract_vectors_u128`,
                     `vec_u128_from_bytes` (sign extension), `vec_to_bytes` (keeps the low bytes)

  A value is a tree: a leaf is the element list of a scalar / array (for `BIT` leaves: all
  `8·⌈n/8⌉` bits that `vec_u128_from_bytes` reads, padding included) stored as residues
  `< 2^bits`; a node is a tuple / named tuple / vector.  The Rust code recurses over the type and
  indexes the values; here the tree carries the scalar type at its leaves.
-/
namespace CCV.Sharing
open CCV

inductive Val where
  | leaf (st : ST) (xs : List Nat)
  | node (vs : List Val)
  deriving Repr, Inhabited

/-! ### element arithmetic, as the code performs it on `u128` -/

/-- `u128::wrapping_sub`. -/
def wrappingSub (x y : Nat) : Nat := (x + 2 ^ 128 - y) % 2 ^ 128

/-- `u128::wrapping_add`. -/
def wrappingAdd (x y : Nat) : Nat := (x + y) % 2 ^ 128

/-- What `vec_u128_from_bytes` returns for the little-endian bytes of the residue `a < 2^bits`:
    signed types narrower than 128 bits are sign-extended to 128 bits. -/
def ext (st : ST) (a : Nat) : Nat :=
  if st.signed = true ∧ st.bits < 128 ∧ 2 ^ (st.bits - 1) ≤ a then a + (2 ^ 128 - 2 ^ st.bits) else a

/-- `match modulus { Some(m) => val % m, None => val }` with `m = ScalarType::get_modulus`
    (`None` for the 128-bit types). -/
def reduce (st : ST) (x : Nat) : Nat := if st.bits = 128 then x else x % 2 ^ st.bits

/-- `vec_to_bytes` keeps the low `bits` bits of every element (for `BIT` the element is already
    `0/1` after `reduce`). -/
def low (st : ST) (x : Nat) : Nat := x % 2 ^ st.bits

/-- one element of `generalized_subtract`: decode, `subtract_vectors_u128`, encode. -/
def subRes (st : ST) (a b : Nat) : Nat := low st (reduce st (wrappingSub (ext st a) (ext st b)))

/-- one element of `generalized_add`: decode, `add_vectors_u128` (`add_u128`), encode. -/
def addRes (st : ST) (a b : Nat) : Nat := low st (reduce st (wrappingAdd (ext st a) (ext st b)))

/-! ### type-recursive element-wise operations -/

mutual
/-- the common recursion of `generalized_subtract` / `generalized_add`: leaves element-wise,
    tuples / named tuples / vectors child by child.  Shape mismatches (an `Err` or an index
    panic in Rust) are excluded by `like` before the driver calls this; the total function
    truncates. -/
def map2 (f : ST → Nat → Nat → Nat) : Val → Val → Val
  | .leaf st xs, .leaf _ ys => .leaf st (List.zipWith (f st) xs ys)
  | .node vs, .node ws => .node (map2L f vs ws)
  | _, _ => .node []
def map2L (f : ST → Nat → Nat → Nat) : List Val → List Val → List Val
  | v :: vs, w :: ws => map2 f v w :: map2L f vs ws
  | _, _ => []
end

/-- `generalized_subtract(v, v0, t)`. -/
def gsub (v v0 : Val) : Val := map2 subRes v v0

/-- `generalized_add(v, v0, t)`. -/
def gadd (v v0 : Val) : Val := map2 addRes v v0

mutual
/-- same type: same tree, same scalar types, same element counts. -/
def like : Val → Val → Bool
  | .leaf st xs, .leaf st' ys => decide (st = st') && decide (xs.length = ys.length)
  | .node vs, .node ws => likeL vs ws
  | _, _ => false
def likeL : List Val → List Val → Bool
  | [], [] => true
  | v :: vs, w :: ws => like v w && likeL vs ws
  | _, _ => false
end

mutual
/-- well-formed: every element is a residue of its scalar type. -/
def wf : Val → Bool
  | .leaf st xs => xs.all (fun x => decide (x < 2 ^ st.bits))
  | .node vs => wfL vs
def wfL : List Val → Bool
  | [] => true
  | v :: vs => wf v && wfL vs
end

/-! ### sharing -/

/-- three values of one type: the three shares, or the 3-tuple one party receives. -/
structure T3 where
  x0 : Val
  x1 : Val
  x2 : Val
  deriving Repr, Inhabited

/-- slot `k mod 3`. -/
def T3.slot (t : T3) (k : Nat) : Val :=
  match k % 3 with
  | 0 => t.x0
  | 1 => t.x1
  | _ => t.x2

/-- `shard_to_shares` (typed_value.rs and replicated_shares.rs are identical): `r0`, `r1` are the two
    values drawn from the PRNG, `v2 = (v − v0) − v1`. -/
def share (v r0 r1 : Val) : T3 := ⟨r0, r1, gsub (gsub v r0) r1⟩

/-- `secret_share_reveal` / `ReplicatedShares::reveal`: `(v0 + v1) + v2`. -/
def reveal (s : T3) : Val := gadd (gadd s.x0 s.x1) s.x2

/-- `share_vector` on a flat array: `r0r1 = add_vectors_u128(r0, r1)`,
    `r2 = subtract_vectors_u128(data, r0r1)`.  Here `r0r1` stays a `u128` vector (it is not
    written to bytes, hence not sign-extended again). -/
def shareVector (st : ST) (xs r0 r1 : List Nat) : T3 :=
  let r0r1 := List.zipWith (fun a b => reduce st (wrappingAdd (ext st a) (ext st b))) r0 r1
  let r2 := List.zipWith (fun x s => low st (reduce st (wrappingSub (ext st x) s))) xs r0r1
  ⟨.leaf st r0, .leaf st r1, .leaf st r2⟩

/-- The tuple party `i` receives; `g` are the three garbage values drawn after the shares.
    Identical in `get_local_shares_for_each_party`, `secret_share_for_parties`, `share_vector`:
    party 0 ↦ `(v0, v1, g2)`, party 1 ↦ `(g0, v1, v2)`, party 2 ↦ `(v0, g1, v2)`. -/
def party (i : Nat) (s g : T3) : T3 :=
  match i % 3 with
  | 0 => ⟨s.x0, s.x1, g.x2⟩
  | 1 => ⟨g.x0, s.x1, s.x2⟩
  | _ => ⟨s.x0, g.x1, s.x2⟩

def parties (s g : T3) : List T3 := [party 0 s g, party 1 s g, party 2 s g]

/-- Slot `k` taken from the tuples of parties `i` and `j`: from `i` if `i` holds share `k`
    (`k = i` or `k = i+1`), else from `j`. -/
def pick (i : Nat) (ti tj : T3) (k : Nat) : Val :=
  if i % 3 = k % 3 ∨ (i + 1) % 3 = k % 3 then ti.slot k else tj.slot k

/-- reconstruction by two parties `i ≠ j` from their tuples only (garbage slots are never read). -/
def recon (i : Nat) (_j : Nat) (ti tj : T3) : Val :=
  reveal ⟨pick i ti tj 0, pick i ti tj 1, pick i ti tj 2⟩

/-- the two genuine shares party `i` holds, as a function of the randomness. -/
def held (i : Nat) (v : Val) (g : T3) (r : Val × Val) : Val × Val :=
  let p := party i (share v r.1 r.2) g
  (p.slot i, p.slot (i + 1))

/-- explicit inverse of `held i v g`: the randomness `(r0, r1)` that makes party `i` hold `(a, b)`. -/
def unheld (i : Nat) (v : Val) (h : Val × Val) : Val × Val :=
  match i % 3 with
  | 0 => (h.1, h.2)                              -- holds (v0, v1) = (r0, r1)
  | 1 => (gsub (gsub v h.1) h.2, h.1)            -- holds (v1, v2): r1 = v1, r0 = v − v1 − v2
  | _ => (h.2, gsub (gsub v h.2) h.1)            -- holds (v2, v0): r0 = v0, r1 = v − v0 − v2

/-- checked entry points used by the driver (`none` ↔ the Rust call fails on a shape mismatch) -/
def gsub? (a b : Val) : Option Val := if like a b then some (gsub a b) else none
def gadd? (a b : Val) : Option Val := if like a b then some (gadd a b) else none
def share? (v r0 r1 : Val) : Option T3 :=
  if like v r0 && like v r1 then some (share v r0 r1) else none
def reveal? (s : T3) : Option Val :=
  if like s.x0 s.x1 && like s.x0 s.x2 then some (reveal s) else none

end CCV.Sharing
