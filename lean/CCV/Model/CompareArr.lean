import CCV.Model.Compare
import CCV.Model.Shape
import CCV.Model.Ops
import CCV.Model.TypeInfer
/-
  Array layer of the comparison custom operations of ciphercore
  (`ciphercore-base/src/ops/comparisons.rs`, `ops/min_max.rs`, `ops/utils.rs`, `ops/multiplexer.rs`):
  shapes and data movement around the per-pair algorithm of `CCV.Model.Compare`.

  A bit array of shape `s` is the pair (`s`, row-major list of its `prod s` stored bits 0/1) — the
  convention of `CCV.Model.Ops`.  Mirrored, in the order the instantiated graph does it:
    `expand_to_same_dims` (Reshape: shape only) → `pull_out_bits` (PermuteAxes, the evaluator model
    `Ops.permuteAxes`) → the comparison graph on bit-first arrays with broadcasting of the trailing
    axes (the evaluator's `number_to_index` / `index_to_number` arithmetic; each broadcast column is
    handed to `Compare.compare`, i.e. to the model of `flip_msb` + `build_comparison_graph` + post
    processing) → for Min/Max `normalize_cmp` (Reshape) and the three broadcasting GF(2) operations
    of `Mux` (the evaluator model `Ops.arith` at scalar type BIT).
  Imports only `CCV.Model.*` (linked into the model driver).
-/
namespace CCV.CompareArr
open CCV CCV.Shape CCV.Compare

/-- the inner `while axis_iter != axis.len() && axis[axis_iter] <= new_shape_iter` loop of
    `expand_dims`: skips the positions named in `axis`; returns the new `new_shape_iter` and the
    axes not yet consumed. -/
def skipAxes (it : Nat) : List Nat → Nat × List Nat
  | [] => (it, [])
  | a :: as => if a ≤ it then skipAxes (it + 1) as else (it, a :: as)

/-- loop of `expand_dims(node, axis)` (ops/utils.rs): `new_shape = [1; axis.len() + old.len()]`;
    for every old dimension first skip the positions named in `axis`, then write the dimension at
    `new_shape_iter` (= `it`); the positions never written keep their initial 1. -/
def expandDimsLoop (it : Nat) : List Nat → List Nat → List Nat
  | [], axes => axes.map fun _ => 1
  | d :: ds, axes =>
    let r := skipAxes it axes
    List.replicate (r.1 - it) 1 ++ d :: expandDimsLoop (r.1 + 1) ds r.2

/-- `expand_dims`: new shape (the node is reshaped; row-major data unchanged). -/
def expandDims (s axes : List Nat) : List Nat :=
  if axes.isEmpty then s else expandDimsLoop 0 s axes

/-- `expand_to_same_dims(a, b)` (comparisons.rs): `expand_dims(x, 0..result_len - len_x)`. -/
def expandToSameDims (sa sb : List Nat) : List Nat × List Nat :=
  let r := max sa.length sb.length
  (expandDims sa (List.range (r - sa.length)), expandDims sb (List.range (r - sb.length)))

/-- `pull_out_bits(x)` (ops/utils.rs): rank 1 unchanged; otherwise
    `permute_axes([n-1, 0, 1, …, n-2])`.  Returns (new shape, new data). -/
def pullOutBits (s xs : List Nat) : List Nat × List Nat :=
  if s.length = 1 then (s, xs)
  else
    let perm := (s.length - 1) :: List.range (s.length - 1)
    let out := perm.map fun j => s.getD j 0
    (out, Ops.permuteAxes xs s perm out)

/-- `put_in_bits(x)` (ops/utils.rs): rank 1 unchanged; otherwise `permute_axes([1, …, n-1, 0])`. -/
def putInBits (s xs : List Nat) : List Nat × List Nat :=
  if s.length = 1 then (s, xs)
  else
    let perm := List.range' 1 (s.length - 1) ++ [0]
    let out := perm.map fun j => s.getD j 0
    (out, Ops.permuteAxes xs s perm out)

/-- the bits at position `p` of each of the `w` blocks (of `blk` entries) of a bit-first array:
    the bit string that the element-wise graph operations combine at trailing position `p`. -/
def column (w blk : Nat) (xs : List Nat) (p : Nat) : List Bool :=
  (List.range w).map fun k => xs.getD (k * blk + p) 0 == 1

def bitOf : Option Bool → Nat
  | some true => 1
  | _ => 0

/-- `build_comparison_graph` + post-processing on the bit-first operands `[w] ++ ra`, `[w] ++ rb`:
    every operation of the graph is element-wise on the trailing axes (broadcast to `rr`) and slices
    only axis 0, so entry `i` of the result combines the two broadcast columns; the evaluator finds
    them with `number_to_index(i, rr)[offset..]` and `index_to_number(·, operand shape)`. -/
def cmpPulled (op : Op) (signed : Bool) (w : Nat) (ra xa rb xb rr : List Nat) : List Nat :=
  (List.range (prod rr)).map fun i =>
    let J := numberToIndex i rr
    let a := column w (prod ra) xa (indexToNumber (J.drop (rr.length - ra.length)) ra)
    let b := column w (prod rb) xb (indexToNumber (J.drop (rr.length - rb.length)) rb)
    bitOf (compare op signed a b)

/-- `instantiate_comparison_custom_op` on whole arrays.  Validation
    (`validate_arguments_in_broadcast_bit_ops`: equal last dimensions; `validate_signed_arguments`;
    array types have positive dimensions), `preprocess_inputs` (`expand_to_same_dims`, then per
    operand `flip_msb` — inside `compare`, it acts on each bit string — and `pull_out_bits`),
    broadcast of the bit-first shapes (`a.add(b)` in `from_a_b`; `Err` if impossible), comparison
    graph; the shrink loop ends with `get(vec![0])`, which removes the bit axis.
    Result: (shape without the bit axis — `[]` is a scalar —, row-major result bits). -/
def cmpArr (op : Op) (signed : Bool) (sa xs sb ys : List Nat) : Except String (List Nat × List Nat) :=
  let w := sa.getLastD 0
  if sa.isEmpty ∨ sb.isEmpty ∨ ¬ (sa.all (0 < ·)) ∨ ¬ (sb.all (0 < ·)) then .error "invalid type"
  else if w ≠ sb.getLastD 0 then .error "Input arrays' last dimensions are not the same"
  else if signed = true ∧ w < 2 then .error "Signed input has less than 2 bits"
  else
    let e := expandToSameDims sa sb
    let pa := pullOutBits e.1 xs
    let pb := pullOutBits e.2 ys
    match TI.broadcastShapes pa.1 pb.1 with
    | .error m => .error m
    | .ok full =>
      let rr := full.tail
      .ok (rr, cmpPulled op signed w pa.1.tail pa.2 pb.1.tail pb.2 rr)

/-- `normalize_cmp(cmp)` (min_max.rs): an array gets a trailing axis of size 1 (Reshape, data
    unchanged); a scalar stays a scalar, whose evaluator dimensions are `[1] = [] ++ [1]`. -/
def normalizeCmp (rr : List Nat) : List Nat := rr ++ [1]

/-- one broadcasting GF(2) operation of the graph (`Add` / `Multiply` at scalar type BIT):
    result shape by `broadcast_shapes`, data by the evaluator model `Ops.arith`. -/
def gf2 (op : Ops.Arith) (s1 xs s2 ys : List Nat) : Except String (List Nat × List Nat) :=
  match TI.broadcastShapes s1 s2 with
  | .error m => .error m
  | .ok sr =>
    match Ops.arith op .bit s1 xs s2 ys sr with
    | .error m => .error m
    | .ok r => .ok (sr, r)

/-- `Mux::instantiate`, bit branch, on arrays:
    `i_choice0.add(i_flag.multiply(i_choice0.add(i_choice1)))`. -/
def muxArr (sf fs s1 c1 s0 c0 : List Nat) : Except String (List Nat × List Nat) :=
  match gf2 .add s0 c0 s1 c1 with
  | .error m => .error m
  | .ok t1 =>
    match gf2 .mul sf fs t1.1 t1.2 with
    | .error m => .error m
    | .ok t2 => gf2 .add s0 c0 t2.1 t2.2

/-- `Min::instantiate`: `Mux(normalize_cmp(GreaterThan(i1, i2)), i2, i1)`. -/
def minArr (signed : Bool) (sa xs sb ys : List Nat) : Except String (List Nat × List Nat) :=
  match cmpArr .gt signed sa xs sb ys with
  | .error m => .error m
  | .ok c => muxArr (normalizeCmp c.1) c.2 sb ys sa xs

/-- `Max::instantiate`: `Mux(normalize_cmp(GreaterThan(i1, i2)), i1, i2)`. -/
def maxArr (signed : Bool) (sa xs sb ys : List Nat) : Except String (List Nat × List Nat) :=
  match cmpArr .gt signed sa xs sb ys with
  | .error m => .error m
  | .ok c => muxArr (normalizeCmp c.1) c.2 sa xs sb ys

/-! ### specification-side notion -/

/-- the bit string stored at multi-index `K` of a bit array of shape `r ++ [w]`:
    bit `k` is the entry at index `K ++ [k]` (index 0 = least significant bit). -/
def strAt (r : List Nat) (w : Nat) (xs K : List Nat) : List Bool :=
  (List.range w).map fun k => xs.getD (flat (K ++ [k]) (r ++ [w])) 0 == 1

end CCV.CompareArr
