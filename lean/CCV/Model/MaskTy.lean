import CCV.Model.Mask
/-
  C03 (ii), TYPES of the exported graph.

  The exported graph (`Model/Mask.lean`) treats `add` / `sub` / `nop` as operations of ONE group.  The
  nodes of a compiled graph have different types (array shapes, scalar types); the exporter keeps
  `add` / `sub` / `nop` only when operands and result have the same type, and a message can only be
  masked by a PRF output of its own type.  `tyOk` CHECKS this on the exported data instead of trusting
  the exporter:

    tys  — a type tag for every node                      (List Nat, one entry per node)
    vty  — the type tag of every unknown tape variable    (List Nat, indexed by variable)

    · a `tapeU v` node has the type of its variable (so all occurrences of v agree);
    · the operands of an `add` / `sub` / `nop` node have the type of the node;
    · every certified message has the type of its pivot variable.

  With `tyOk`, the simulation of the mask discipline maps typed tapes to typed tapes
  (`Lemmas/MaskTy.lean`, `Proofs/C03.lean: checked_graph_hides_typed`).  Import-free.
-/
namespace CCV.Mask

def tyNodeOk (tys vty : List Nat) (idx : Nat) (n : Node) : Bool :=
  let t := tys.getD idx 0
  match n.k with
  | .tapeU v => decide (v < vty.length) && vty.getD v 0 == t
  | .nop => n.deps.all (fun d => tys.getD d 0 == t)
  | .add => n.deps.all (fun d => tys.getD d 0 == t)
  | .sub => n.deps.all (fun d => tys.getD d 0 == t)
  | _ => true

def tyRunOk (tys vty : List Nat) : List Node → Nat → Bool
  | [], _ => true
  | n :: g, idx => tyNodeOk tys vty idx n && tyRunOk tys vty g (idx + 1)

def tyOk (g : List Node) (tys vty : List Nat) (cert : Cert) : Bool :=
  decide (tys.length = g.length) && tyRunOk tys vty g 0 &&
  cert.all (fun (m, v) => decide (v < vty.length) && tys.getD m 0 == vty.getD v 0)

end CCV.Mask
