/-
  Model of `ciphercore-base/src/ops/adder.rs`: the binary adder on bit strings (index 0 = least
  significant bit) with the generate/propagate "segment tree" carry computation
  (`CarryNode`, `interleave`, `calculate_carry_bits`, `BinaryAddTransposed::instantiate`).
  One array element at a time (all graph operations involved are element-wise in the non-bit
  dimensions).  Import-free: linked into the native model driver.
-/
namespace CCV.Adder

/-- one entry of a `CarryNode`: `(propagate, generate)` of a segment. -/
abbrev PG := Bool × Bool

/-- `CarryNode::apply`: carry out of the segment, `generate + propagate * prev_carry` over GF(2). -/
def applyPG (x : PG) (c : Bool) : Bool := xor x.2 (x.1 && c)

/-- `CarryNode::join` (`self` = lower segment, `rhs` = higher segment):
    `propagate = self.p * rhs.p`, `generate = rhs.g + rhs.p * self.g`. -/
def joinPG (lo hi : PG) : PG := (lo.1 && hi.1, xor hi.2 (hi.1 && lo.2))

/-- every second element, starting with the first. -/
def everyOther : List α → List α
  | [] => []
  | [a] => [a]
  | a :: _ :: t => a :: everyOther t

/-- `CarryNode::sub_slice(start_offset, bit_len)`: the slice `[start_offset : bit_len : 2]`. -/
def subSlice (start stop : Nat) (l : List α) : List α := everyOther ((l.take stop).drop start)

/-- `CarryNode::shrink`: join neighbouring segments; without the overflow bit the last segment of
    the next layer is not needed and is dropped. -/
def shrink (ov : Bool) (l : List PG) : List PG :=
  let bitLen := l.length
  let nextLvlBits := if ov then bitLen / 2 else (bitLen - 1) / 2
  let useBits := nextLvlBits * 2
  List.zipWith joinPG (subSlice 0 useBits l) (subSlice 1 useBits l)

/-- `interleave`: `[a1, b1, a2, b2, …]`. -/
def interleave : List α → List α → List α
  | a :: as, b :: bs => a :: b :: interleave as bs
  | _, _ => []

/-- the loop `while nodes.last().bit_len() > 1 { nodes.push(last.shrink(overflow_bit)) }`;
    the vector `nodes` is kept as a stack (head = last pushed layer); `fuel` bounds the number of
    iterations (the layer length at least halves each time, so `bit_len` iterations suffice). -/
def buildNodes (ov : Bool) : Nat → List (List PG) → List (List PG)
  | 0, st => st
  | _ + 1, [] => []
  | f + 1, top :: below =>
    if top.length > 1 then buildNodes ov f (shrink ov top :: top :: below) else top :: below

/-- one round of the top-down pass: `lower = node.sub_slice(0, bit_len)`,
    `new_carries = lower.apply(carries)`, `carries = interleave(carries, new_carries)`. -/
def descendStep (carries : List Bool) (node : List PG) : List Bool :=
  interleave carries (List.zipWith applyPG (subSlice 0 node.length node) carries)

/-- the loop `for node in node_rev_iter` (stack order = reverse vector order). -/
def descend (levels : List (List PG)) (carries : List Bool) : List Bool :=
  levels.foldl descendStep carries

def isPow2Aux : Nat → Nat → Bool
  | 0, _ => false
  | f + 1, k => if k = 1 then true else if k % 2 = 0 ∧ k ≠ 0 then isPow2Aux f (k / 2) else false

/-- `u64::is_power_of_two`. -/
def isPow2 (n : Nat) : Bool := isPow2Aux n n

/-- `calculate_carry_bits` after the power-of-two check: `(carry[0..n-1], carry[n]?)`. -/
def carryCore (pg : List PG) (ov : Bool) : List Bool × Option Bool :=
  let bitLen := pg.length
  let carries := [false]
  if ov = false ∧ bitLen = 1 then (carries, none)
  else
    let nodes := if ov = true ∨ bitLen > 2 then buildNodes ov bitLen [pg] else [pg]
    if ov = true then
      match nodes with
      | root :: rest => (descend rest carries, some ((List.zipWith applyPG root carries).headD false))
      | [] => (carries, some false)
    else (descend nodes carries, none)

/-- `calculate_carry_bits`. -/
def calculateCarryBits (pg : List PG) (ov : Bool) : Except String (List Bool × Option Bool) :=
  if isPow2 pg.length then .ok (carryCore pg ov)
  else .error "BinaryAdd only supports numbers with number of bits, which is a power of 2"

/-- body of `BinaryAddTransposed::instantiate` on one element, without the checks:
    propagate = x xor y, generate = x and y, sum = carries xor propagate. -/
def addCore (ov : Bool) (a b : List Bool) : List Bool × Option Bool :=
  let xorBits := List.zipWith xor a b
  let andBits := List.zipWith and a b
  let r := carryCore (List.zip xorBits andBits) ov
  (List.zipWith xor r.1 xorBits, r.2)

/-- `BinaryAdd { overflow_bit }` on one pair of bit strings (the last dimensions must agree and be
    a power of two). -/
def binaryAdd (ov : Bool) (a b : List Bool) : Except String (List Bool × Option Bool) :=
  if a.length = b.length then
    if isPow2 a.length then .ok (addCore ov a b)
    else .error "BinaryAdd only supports numbers with number of bits, which is a power of 2"
  else .error "Input arrays' last dimensions are not the same"

/-- value of a little-endian bit string. -/
def val : List Bool → Nat
  | [] => 0
  | b :: t => b.toNat + 2 * val t

/-- the most significant (sign) bit. -/
def msb (x : List Bool) : Bool := x.getD (x.length - 1) false

/-- two's-complement value of a little-endian bit string. -/
def sval (x : List Bool) : Int := if msb x then (val x : Int) - (2 ^ x.length : Nat) else (val x : Int)

/-- little-endian bit string of length `n` of `x mod 2^n`. -/
def bitsOf : Nat → Nat → List Bool
  | 0, _ => []
  | n + 1, x => (x % 2 == 1) :: bitsOf n (x / 2)

end CCV.Adder
