import CCV.Model.TypeInfer
import CCV.Model.Ops
/-
  Adapter between the two models of C09 / C10: `evalOp` evaluates ONE node the way
  `SimpleEvaluator::evaluate_node` (ciphercore-base/src/evaluators/simple_evaluator.rs:640-1400)
  does — it reads the types of the dependencies (`node.get_node_dependencies()[i].get_type()`) and the
  type of the node itself (`node.get_type()`, here `TI.infer op tys`), extracts the shape parameters
  (`get_shape`, `get_dimensions`, `get_scalar_type`) and calls the evaluator-shaped function of
  `CCV.Ops` (the model compared with `SimpleEvaluator` in C10).

  Compound values (tuples, named tuples, vectors) are handled as the evaluator does: constructors wrap
  the dependency values, accessors index `to_vector()`, Reshape = `flatten_value` + `unflatten_value`.

  Values are `EV`: the flat list of stored residues of a scalar / array (row-major, what
  `to_flattened_array_u128` returns masked to the element width), or a vector of values.
  `hasType t v` is `Value::check_type` at the level of residues: `prod shape` entries, each below
  `2^bits`.
-/
namespace CCV.EvalOps
open CCV CCV.TV CCV.TI

/-- a value: residues of a scalar / array, or the children of a vector / tuple -/
inductive EV where
  | arr (xs : List Nat)
  | vec (vs : List EV)
  deriving Repr, Inhabited

/-- `Type::get_dimensions` (`[1]` for a scalar) -/
def dimsE : Ty → List Nat
  | .scalar _ => [1]
  | .array s _ => s
  | _ => []

/-- `Type::get_scalar_type` -/
def stE (t : Ty) : ST := (stOf t).getD .bit

/-- the same `SliceElement`, in the vocabulary of `CCV.Slices` -/
def toSE : SliceEl → Slices.SE
  | .single i => .single i
  | .sub b e s => .sub b e s
  | .ellipsis => .ellipsis

/-- `Value::from_flattened_array(&result?, st)` -/
def okArr : Except String (List Nat) → Except String EV
  | .ok r => .ok (.arr r)
  | .error e => .error e

/-- two scalar / array dependencies -/
def bin (f : Ty → List Nat → Ty → List Nat → Except String EV) : List Ty → List EV → Except String EV
  | [t1, t2], [.arr xs, .arr ys] => f t1 xs t2 ys
  | _, _ => .error "evalOp: wrong number or kind of dependency values"

/-- one scalar / array dependency -/
def un (f : Ty → List Nat → Except String EV) : List Ty → List EV → Except String EV
  | [t1], [.arr xs] => f t1 xs
  | _, _ => .error "evalOp: wrong number or kind of dependency values"

/-- `(dep_type.get_dimensions(), entries)` of every dependency (Stack, Concatenate) -/
def payloads : List Ty → List EV → Option (List (List Nat × List Nat))
  | [], [] => some []
  | t :: ts, .arr xs :: vs =>
    match payloads ts vs with
    | some r => some ((dimsE t, xs) :: r)
    | none => none
  | _, _ => none

/-- `value.to_vector()` whose children are scalars / arrays -/
def rowsOf : List EV → Option (List (List Nat))
  | [] => some []
  | .arr xs :: vs =>
    match rowsOf vs with
    | some r => some (xs :: r)
    | none => none
  | _ :: _ => none

def isFlat (t : Ty) : Bool := isArr t || isSc t

mutual
/-- `flatten_value` (simple_evaluator.rs:39): the scalar / array leaves, left to right -/
def flattenEV : EV → List EV
  | .arr xs => [.arr xs]
  | .vec vs => flattenEVL vs
def flattenEVL : List EV → List EV
  | [] => []
  | v :: vs => flattenEV v ++ flattenEVL vs
end

/-- `for _ in 0..len { result.push(f(…)) }` threading the rest of the flattened value -/
def repM (f : List EV → Option (EV × List EV)) : Nat → List EV → Option (List EV × List EV)
  | 0, xs => some ([], xs)
  | n + 1, xs =>
    match f xs with
    | none => none
    | some (v, r) =>
      match repM f n r with
      | none => none
      | some (vs, r') => some (v :: vs, r')

mutual
/-- `unflatten_value(flattened, position, t)` (simple_evaluator.rs:53): the position counter is
    modelled by the list of leaves not yet consumed; `none` = the Rust index `flattened[position]`
    is out of bounds (panic). -/
def unflat : Ty → List EV → Option (EV × List EV)
  | .scalar _, xs =>
    match xs with
    | x :: r => some (x, r)
    | [] => none
  | .array _ _, xs =>
    match xs with
    | x :: r => some (x, r)
    | [] => none
  | .vector n t, xs =>
    match repM (unflat t) n xs with
    | some (vs, r) => some (.vec vs, r)
    | none => none
  | .tuple ts, xs =>
    match unflatL ts xs with
    | some (vs, r) => some (.vec vs, r)
    | none => none
  | .named fs, xs =>
    match unflatN fs xs with
    | some (vs, r) => some (.vec vs, r)
    | none => none
def unflatL : List Ty → List EV → Option (List EV × List EV)
  | [], xs => some ([], xs)
  | t :: ts, xs =>
    match unflat t xs with
    | none => none
    | some (v, r) =>
      match unflatL ts r with
      | none => none
      | some (vs, r') => some (v :: vs, r')
def unflatN : List (String × Ty) → List EV → Option (List EV × List EV)
  | [], xs => some ([], xs)
  | (_, t) :: fs, xs =>
    match unflat t xs with
    | none => none
    | some (v, r) =>
      match unflatN fs r with
      | none => none
      | some (vs, r') => some (v :: vs, r')
end

/-- position of the first field called `name` (the loop of `Operation::NamedTupleGet`) -/
def fieldIdx (name : String) : List (String × Ty) → Option Nat
  | [] => none
  | (n, _) :: fs =>
    if n = name then some 0
    else
      match fieldIdx name fs with
      | some k => some (k + 1)
      | none => none

/-- `value.to_vector()` of every dependency (Zip) -/
def colsOf : List EV → Option (List (List EV))
  | [] => some []
  | .vec cs :: vs =>
    match colsOf vs with
    | some r => some (cs :: r)
    | none => none
  | _ :: _ => none

/-- the loop of `Operation::Zip`: rows `index = 0, 1, …` until some column is exhausted (with no
    column at all the Rust loop does not terminate; `process_node` demands at least two). -/
def zipRows (cols : List (List EV)) : List EV :=
  match cols with
  | [] => []
  | c :: cs =>
    let n := cs.foldl (fun m c' => if c'.length ≤ m then c'.length else m) c.length
    (List.range n).map fun i => .vec (cols.map fun col => col.getD i (.arr []))

/-- `evaluate_node` for the covered operations: `tys` are the types of the dependencies, `vs` their
    values.  Operations outside the covered set return an error tagged `evalOp:`; errors tagged
    `panic:` are Rust panics (unreachable on accepted nodes, see `C09Values`). -/
def evalOp (op : Op) (tys : List Ty) (vs : List EV) : Except String EV :=
  match infer op tys with
  | .error e => .error e
  | .ok t =>
    match op with
    | .add => bin (fun t1 xs t2 ys => okArr (Ops.arith .add (stE t1) (dimsE t1) xs (dimsE t2) ys (dimsE t))) tys vs
    | .subtract => bin (fun t1 xs t2 ys => okArr (Ops.arith .sub (stE t1) (dimsE t1) xs (dimsE t2) ys (dimsE t))) tys vs
    | .multiply => bin (fun t1 xs t2 ys => okArr (Ops.arith .mul (stE t1) (dimsE t1) xs (dimsE t2) ys (dimsE t))) tys vs
    | .mixedMultiply =>
      bin (fun t1 xs t2 ys => okArr (Ops.mixedMultiply (stE t1) (dimsE t1) xs (dimsE t2) ys (dimsE t))) tys vs
    | .dot =>
      bin (fun t1 xs t2 ys =>
        if isArr t1 = true ∧ isArr t2 = true then
          .ok (.arr (Ops.dot (stE t1) (dimsE t1) xs (dimsE t2) ys (dimsE t)))
        else okArr (Ops.arith .mul (stE t1) (dimsE t1) xs (dimsE t2) ys (dimsE t))) tys vs
    | .matmul =>
      bin (fun t1 xs t2 ys => .ok (.arr (Ops.matmul (stE t1) (dimsE t1) xs (dimsE t2) ys (dimsE t)))) tys vs
    | .gemm ta tb =>
      bin (fun t1 xs t2 ys => okArr (Ops.gemm (stE t1) ta tb (dimsE t1) xs (dimsE t2) ys (dimsE t))) tys vs
    | .truncate d => un (fun t1 xs => .ok (.arr (Ops.truncate (stE t1) d xs))) tys vs
    | .sum axes =>
      un (fun t1 xs => .ok (.arr (Ops.sum (stE t1) (dimsE t1) xs axes
        (match t with
         | .array s _ => some s
         | _ => none)))) tys vs
    | .cumSum axis => un (fun t1 xs => .ok (.arr (Ops.cumSum (stE t1) (dimsE t1) xs axis))) tys vs
    | .permuteAxes axes => un (fun t1 xs => .ok (.arr (Ops.permuteAxes xs (dimsE t1) axes (dimsE t)))) tys vs
    | .get idx => un (fun t1 xs => .ok (.arr (Ops.get (dimsE t1) xs idx))) tys vs
    | .getSlice sl => un (fun t1 xs => okArr (Ops.getSlice (dimsE t1) xs (sl.map toSE) (dimsE t))) tys vs
    | .reshape nt =>
      match vs with
      | [v] =>
        match unflat nt (flattenEV v) with
        | some (r, _) => .ok r
        | none => .error "panic: index out of bounds (unflatten_value)"
      | _ => .error "evalOp: wrong number or kind of dependency values"
    | .nop =>
      match vs with
      | [v] => .ok v
      | _ => .error "evalOp: wrong number or kind of dependency values"
    | .stack outer =>
      match payloads tys vs with
      | some ps => .ok (.arr (Ops.stack outer ps (dimsE t)))
      | none => .error "evalOp: wrong number or kind of dependency values"
    | .concatenate axis =>
      match payloads tys vs with
      | some ps => .ok (.arr (Ops.concatenate axis ps (dimsE t)))
      | none => .error "evalOp: wrong number or kind of dependency values"
    | .a2b => un (fun t1 xs => okArr (Ops.a2b (stE t1) xs)) tys vs
    | .b2a st => un (fun _ xs => okArr (Ops.b2a st xs)) tys vs
    | .arrayToVector => un (fun t1 xs => .ok (.vec ((Ops.arrayToVector (dimsE t1) xs).map .arr))) tys vs
    | .vectorToArray =>
      match vs with
      | [.vec rows] =>
        match rowsOf rows with
        | some rs => .ok (.arr (Ops.vectorToArray rs))
        | none => .error "evalOp: wrong number or kind of dependency values"
      | _ => .error "evalOp: wrong number or kind of dependency values"
    | .gather axis => bin (fun t1 xs _ idx => okArr (Ops.gather (dimsE t1) xs idx axis)) tys vs
    | .inversePermutation => un (fun _ xs => okArr (Ops.inversePermutation xs)) tys vs
    | .applyPermutation inv =>
      bin (fun t1 xs _ perm => okArr (Ops.applyPermutation inv (dimsE t1) xs perm)) tys vs
    | .createTuple => .ok (.vec vs)
    | .createNamedTuple _ => .ok (.vec vs)
    | .createVector _ => .ok (.vec vs)
    | .tupleGet i =>
      match vs with
      | [.vec cs] =>
        match cs[i]? with
        | some c => .ok c
        | none => .error "panic: index out of bounds (TupleGet)"
      | _ => .error "evalOp: wrong number or kind of dependency values"
    | .namedTupleGet name =>
      match tys, vs with
      | [.named fs], [.vec cs] =>
        match fieldIdx name fs with
        | none => .error "panic: unwrap of None (NamedTupleGet)"
        | some k =>
          match cs[k]? with
          | some c => .ok c
          | none => .error "panic: index out of bounds (NamedTupleGet)"
      | _, _ => .error "evalOp: wrong number or kind of dependency values"
    | .vectorGet =>
      match tys, vs with
      | [.vector n _, _], [.vec cs, .arr [i]] =>
        if n ≤ i then .error "Index out of range"
        else
          match cs[i]? with
          | some c => .ok c
          | none => .error "panic: index out of bounds (VectorGet)"
      | _, _ => .error "evalOp: wrong number or kind of dependency values"
    | .zip =>
      match colsOf vs with
      | some cols => .ok (.vec (zipRows cols))
      | none => .error "evalOp: wrong number or kind of dependency values"
    | .repeat_ n =>
      match vs with
      | [v] => .ok (.vec (List.replicate n v))
      | _ => .error "evalOp: wrong number or kind of dependency values"
    | _ => .error "evalOp: operation not covered"

/-! ### `Value::check_type` on residues -/

/-- a flat payload of `n` residues of scalar type `st` -/
def flatOk (st : ST) (n : Nat) (xs : List Nat) : Prop := xs.length = n ∧ ∀ x ∈ xs, x < 2 ^ st.bits

mutual
/-- the value has the type: `prod shape` residues below `2^bits` for scalars / arrays; the right
    number of children, each of its type, for vectors / tuples / named tuples. -/
def hasType : Ty → EV → Prop
  | .scalar st, .arr xs => flatOk st 1 xs
  | .array s st, .arr xs => flatOk st (Shape.prod s) xs
  | .vector n t, .vec vs => vs.length = n ∧ ∀ v ∈ vs, hasType t v
  | .tuple ts, .vec vs => hasTypeL ts vs
  | .named fs, .vec vs => hasTypeN fs vs
  | _, _ => False
def hasTypeL : List Ty → List EV → Prop
  | [], [] => True
  | t :: ts, v :: vs => hasType t v ∧ hasTypeL ts vs
  | _, _ => False
def hasTypeN : List (String × Ty) → List EV → Prop
  | [], [] => True
  | (_, t) :: fs, v :: vs => hasType t v ∧ hasTypeN fs vs
  | _, _ => False
end

end CCV.EvalOps
