/-
  Model of context (de)serialisation — ciphercore-base/src/graphs.rs:
    `Node::make_serializable` (1320), `Graph::make_serializable` (3574),
    `Context::make_serializable` + `serialize_hashmap` (4402-4440),
    `SerializableContextBody::recover_original_graph / recover_original_context` (3813-3945),
    and the builder checks these replay through: `Graph::add_node_internal` (3415),
    `set_output_node` (3214), `Graph::finalize` (3174), `Context::set_main_graph` (4059),
    `set_graph_name` (4172), `set_node_name` (4283), `add_graph_annotation` (4600),
    `add_node_annotation` (4558), `Context::finalize` (4020).

  Abstraction.  A context is its observable state: graphs (finalized flag, nodes, output id), main
  graph id, the four context tables and the finalized flag.  Pointers are ids (= positions; the
  builder maintains `nodes[n.id] == n`, `graphs[g.id] == g`).  Operations are OPAQUE TAGS (`Nat`):
  the type-inference verdict that `add_node` re-computes during the replay is outside this model
  (every tag "type-checks"); names and annotations are opaque codes (`Nat`, injective encoding on
  the harness side).  A Rust `HashMap` is modelled as an association list in insertion order with
  unique keys; its iteration order is arbitrary, which is why `serialize_hashmap` sorts and why two
  contexts are "deeply equal" when their tables are permutations of one another.

  Import-free: linked into the native model executable.
-/
namespace CCV.Serde

/-- `NodeBody` / `SerializableNodeBody`: operation tag, node dependencies, graph dependencies (ids) -/
structure Node where
  op : Nat
  deps : List Nat
  gdeps : List Nat
deriving DecidableEq, Repr

/-- `GraphBody` / `SerializableGraphBody` -/
structure Graph where
  finalized : Bool
  nodes : List Node
  output : Option Nat
deriving DecidableEq, Repr

/-- `ContextBody` (observable part). Tables: association lists standing for hash maps. -/
structure Ctx where
  finalized : Bool
  graphs : List Graph
  main : Option Nat
  /-- graph id ↦ name -/
  graphNames : List (Nat × Nat)
  /-- (graph id, node id) ↦ name -/
  nodeNames : List ((Nat × Nat) × Nat)
  /-- graph id ↦ annotations (in order of addition) -/
  graphAnns : List (Nat × List Nat)
  /-- (graph id, node id) ↦ annotations (in order of addition) -/
  nodeAnns : List ((Nat × Nat) × List Nat)
deriving DecidableEq, Repr

/-- `SerializableContextBody`: what is written as the JSON payload. Tables are `Vec<(key, value)>`. -/
structure SerCtx where
  finalized : Bool
  graphs : List Graph
  main : Option Nat
  graphNames : List (Nat × Nat)
  nodeNames : List ((Nat × Nat) × Nat)
  nodeAnns : List ((Nat × Nat) × List Nat)
  graphAnns : List (Nat × List Nat)
deriving DecidableEq, Repr

/-! ### serialisation -/

/-- `<` on `u64` keys -/
def ltNat (a b : Nat) : Bool := decide (a < b)

/-- lexicographic `<` on `(u64, u64)` keys (Rust tuple `Ord`) -/
def ltPair (a b : Nat × Nat) : Bool := decide (a.1 < b.1 ∨ (a.1 = b.1 ∧ a.2 < b.2))

/-- insertion step of a stable sort by key -/
def insertBy {K V : Type} (lt : K → K → Bool) (e : K × V) : List (K × V) → List (K × V)
  | [] => [e]
  | x :: xs => if lt x.1 e.1 then x :: insertBy lt e xs else e :: x :: xs

/-- `serialize_hashmap`: `vec.sort_by_key(|(k, _)| *k)` (stable sort by key) -/
def sortBy {K V : Type} (lt : K → K → Bool) : List (K × V) → List (K × V)
  | [] => []
  | x :: xs => insertBy lt x (sortBy lt xs)

/-- `Context::make_serializable` -/
def toSer (c : Ctx) : SerCtx :=
  { finalized := c.finalized
    graphs := c.graphs
    main := c.main
    graphNames := sortBy ltNat c.graphNames
    nodeNames := sortBy ltPair c.nodeNames
    nodeAnns := sortBy ltPair c.nodeAnns
    graphAnns := sortBy ltNat c.graphAnns }

/-! ### recovery (replay through the builder checks) -/

/-- A graph dependency `h` of a node added to the graph with id `prev.length`:
    `recover_original_graph` requires `h < graphs.len()` (the graph being rebuilt included),
    `add_node_internal` requires the dependency finalized (the graph being rebuilt is not) and
    `h < self.id`. Together: `h` is an earlier graph and that graph is finalized. -/
def gdepOk (prev : List Graph) (h : Nat) : Bool :=
  match prev[h]? with
  | some g => g.finalized
  | none => false

/-- node `n` is about to become node number `k`: every node dependency `< k` (exists already),
    every graph dependency earlier and finalized -/
def nodeOk (prev : List Graph) (k : Nat) (n : Node) : Bool :=
  n.deps.all (fun d => decide (d < k)) && n.gdeps.all (gdepOk prev)

/-- the node loop of `recover_original_graph`; `k` = number of nodes rebuilt so far -/
def recoverNodes (prev : List Graph) : Nat → List Node → Except String (List Node)
  | _, [] => .ok []
  | k, n :: rest =>
    if nodeOk prev k n then
      match recoverNodes prev (k + 1) rest with
      | .ok ns => .ok (n :: ns)
      | .error e => .error e
    else .error "Non-existent or invalid dependency"

/-- `recover_original_graph` after the node loop: output id guarded, `finalize` needs an output -/
def recoverGraph (prev : List Graph) (sg : Graph) : Except String Graph :=
  match recoverNodes prev 0 sg.nodes with
  | .error e => .error e
  | .ok nodes =>
    match sg.output with
    | some o =>
      if o < nodes.length then .ok ⟨sg.finalized, nodes, some o⟩
      else .error "Non-existent output node"
    | none =>
      if sg.finalized then .error "Output node is not set"
      else .ok ⟨false, nodes, none⟩

/-- the graph loop of `recover_original_context`; `prev` = graphs rebuilt so far -/
def recoverGraphs : List Graph → List Graph → Except String (List Graph)
  | prev, [] => .ok prev
  | prev, sg :: rest =>
    match recoverGraph prev sg with
    | .ok g => recoverGraphs (prev ++ [g]) rest
    | .error e => .error e

/-- `set_main_graph`: id guarded, the graph must be finalized -/
def recoverMain (gs : List Graph) : Option Nat → Except String (Option Nat)
  | none => .ok none
  | some m =>
    match gs[m]? with
    | none => .error "Non-existent main graph"
    | some g => if g.finalized then .ok (some m) else .error "Graph is not finalized"

def graphInRange (gs : List Graph) (g : Nat) : Bool := decide (g < gs.length)

def nodeInRange (gs : List Graph) (k : Nat × Nat) : Bool :=
  match gs[k.1]? with
  | some g => decide (k.2 < g.nodes.length)
  | none => false

def hasKey {K V : Type} [DecidableEq K] (t : List (K × V)) (k : K) : Bool :=
  t.any (fun e => decide (e.1 = k))

/-- loop of `set_graph_name`: not named twice, names unique -/
def setGraphNames : List (Nat × Nat) → List (Nat × Nat) → Except String (List (Nat × Nat))
  | acc, [] => .ok acc
  | acc, e :: rest =>
    if hasKey acc e.1 then .error "Can't set the graph name twice"
    else if acc.any (fun x => decide (x.2 = e.2)) then .error "Graph names must be unique"
    else setGraphNames (acc ++ [e]) rest

/-- loop of `set_node_name`: not named twice, names unique within the graph -/
def setNodeNames : List ((Nat × Nat) × Nat) → List ((Nat × Nat) × Nat) →
    Except String (List ((Nat × Nat) × Nat))
  | acc, [] => .ok acc
  | acc, e :: rest =>
    if hasKey acc e.1 then .error "Can't set the node name twice"
    else if acc.any (fun x => decide (x.1.1 = e.1.1 ∧ x.2 = e.2)) then
      .error "Node names must be unique (within the graph)"
    else setNodeNames (acc ++ [e]) rest

/-- `add_*_annotation`: push onto the existing vector of that key, else insert `[a]` -/
def pushAnn {K : Type} [DecidableEq K] (k : K) (a : Nat) : List (K × List Nat) → List (K × List Nat)
  | [] => [(k, [a])]
  | e :: es => if e.1 = k then (e.1, e.2 ++ [a]) :: es else e :: pushAnn k a es

/-- annotation loops of `recover_original_context`, with the id guard (the unpatched code indexes
    without it: graphs.rs:3906-3924) -/
def addAnns {K : Type} [DecidableEq K] (inRange : K → Bool) :
    List (K × List Nat) → List (K × List Nat) → Except String (List (K × List Nat))
  | acc, [] => .ok acc
  | acc, e :: rest =>
    if inRange e.1 then addAnns inRange (e.2.foldl (fun t a => pushAnn e.1 a t) acc) rest
    else .error "annotations contain an invalid ID"

/-- `recover_original_context` -/
def recover (s : SerCtx) : Except String Ctx :=
  match recoverGraphs [] s.graphs with
  | .error e => .error e
  | .ok gs =>
    match recoverMain gs s.main with
    | .error e => .error e
    | .ok main =>
      if !(s.graphNames.all (fun e => graphInRange gs e.1)) then
        .error "graphs_names contain an invalid ID"
      else if !(s.nodeNames.all (fun e => nodeInRange gs e.1)) then
        .error "nodes_names contain an invalid ID"
      else
        match setGraphNames [] s.graphNames with
        | .error e => .error e
        | .ok gn =>
          match setNodeNames [] s.nodeNames with
          | .error e => .error e
          | .ok nn =>
            match addAnns (graphInRange gs) [] s.graphAnns with
            | .error e => .error e
            | .ok ga =>
              match addAnns (nodeInRange gs) [] s.nodeAnns with
              | .error e => .error e
              | .ok na =>
                if s.finalized then
                  -- `Context::finalize`: every graph finalized, main graph set
                  if gs.all (fun g => g.finalized) && main.isSome then
                    .ok ⟨true, gs, main, gn, nn, ga, na⟩
                  else .error "Can't finalize the context"
                else .ok ⟨false, gs, main, gn, nn, ga, na⟩

/-! ### canonical one-line encoding (driver and harness) -/

def encOpt : Option Nat → Nat
  | none => 0
  | some x => x + 1

def encNode (n : Node) : List Nat :=
  [n.op, n.deps.length] ++ n.deps ++ [n.gdeps.length] ++ n.gdeps

def encGraph (g : Graph) : List Nat :=
  [if g.finalized then 1 else 0, encOpt g.output, g.nodes.length] ++ (g.nodes.map encNode).flatten

def encSer (s : SerCtx) : List Nat :=
  [if s.finalized then 1 else 0, encOpt s.main, s.graphs.length] ++ (s.graphs.map encGraph).flatten
  ++ [s.graphNames.length] ++ (s.graphNames.map (fun e => [e.1, e.2])).flatten
  ++ [s.nodeNames.length] ++ (s.nodeNames.map (fun e => [e.1.1, e.1.2, e.2])).flatten
  ++ [s.graphAnns.length] ++ (s.graphAnns.map (fun e => [e.1, e.2.length] ++ e.2)).flatten
  ++ [s.nodeAnns.length] ++ (s.nodeAnns.map (fun e => [e.1.1, e.1.2, e.2.length] ++ e.2)).flatten

/-- parse `n` items -/
def parseMany {α : Type} (p : List Nat → Option (α × List Nat)) : Nat → List Nat → Option (List α × List Nat)
  | 0, ts => some ([], ts)
  | n + 1, ts =>
    match p ts with
    | none => none
    | some (a, ts) =>
      match parseMany p n ts with
      | none => none
      | some (as, ts) => some (a :: as, ts)

def parseNat1 : List Nat → Option (Nat × List Nat)
  | [] => none
  | x :: ts => some (x, ts)

def parseCounted : List Nat → Option (List Nat × List Nat)
  | [] => none
  | n :: ts => parseMany parseNat1 n ts

def decOpt (x : Nat) : Option Nat := if x = 0 then none else some (x - 1)

def parseNode : List Nat → Option (Node × List Nat)
  | [] => none
  | op :: ts =>
    match parseCounted ts with
    | none => none
    | some (deps, ts) =>
      match parseCounted ts with
      | none => none
      | some (gdeps, ts) => some (⟨op, deps, gdeps⟩, ts)

def parseGraph : List Nat → Option (Graph × List Nat)
  | f :: o :: n :: ts =>
    match parseMany parseNode n ts with
    | none => none
    | some (nodes, ts) => some (⟨f != 0, nodes, decOpt o⟩, ts)
  | _ => none

def parseGN : List Nat → Option ((Nat × Nat) × List Nat)
  | g :: nm :: ts => some ((g, nm), ts)
  | _ => none

def parseNN : List Nat → Option (((Nat × Nat) × Nat) × List Nat)
  | g :: n :: nm :: ts => some (((g, n), nm), ts)
  | _ => none

def parseGA : List Nat → Option ((Nat × List Nat) × List Nat)
  | g :: ts =>
    match parseCounted ts with
    | none => none
    | some (as, ts) => some ((g, as), ts)
  | _ => none

def parseNA : List Nat → Option (((Nat × Nat) × List Nat) × List Nat)
  | g :: n :: ts =>
    match parseCounted ts with
    | none => none
    | some (as, ts) => some (((g, n), as), ts)
  | _ => none

def parseTable {α : Type} (p : List Nat → Option (α × List Nat)) : List Nat → Option (List α × List Nat)
  | [] => none
  | n :: ts => parseMany p n ts

/-- inverse of `encSer` (tables in the given order, nothing checked) -/
def parseSer : List Nat → Option SerCtx
  | f :: m :: ng :: ts =>
    match parseMany parseGraph ng ts with
    | none => none
    | some (graphs, ts) =>
      match parseTable parseGN ts with
      | none => none
      | some (gn, ts) =>
        match parseTable parseNN ts with
        | none => none
        | some (nn, ts) =>
          match parseTable parseGA ts with
          | none => none
          | some (ga, ts) =>
            match parseTable parseNA ts with
            | some (na, []) => some ⟨f != 0, graphs, decOpt m, gn, nn, na, ga⟩
            | _ => none
  | _ => none

/-- the abstract context whose tables are listed in the given order -/
def SerCtx.asCtx (s : SerCtx) : Ctx :=
  ⟨s.finalized, s.graphs, s.main, s.graphNames, s.nodeNames, s.graphAnns, s.nodeAnns⟩

end CCV.Serde
