/-
  The four graph-optimisation passes of `ciphercore-base/src/optimizer/` and the mapping chain
  (C06; part (b) of C04 is stated on this model as well).

  IR: a graph is a list of nodes in creation order (node id = position) and the id of the output
  node.  A node carries its operation, the ids of its dependencies, its annotations (interned, in
  order), its name (interned) and the little bit of its type the meta pass looks at.  `Op`
  distinguishes exactly what the passes inspect; everything else is `other tag`, where equal tags
  mean equal `Operation`s.

  Every pass returns the new graph AND the old→new node mapping (`ContextMappings.node_mapping`,
  here a list indexed by the old id; `none` = no image).

  Import-free (linked into the model driver).
-/
namespace CCV.Optimizer

/-- what `meta_operation_optimizer.rs` reads from a node type: number of dimensions and scalar type
    of an array/scalar type (`arr 0 st` = scalar), element type of a vector type -/
inductive Ty where
  | arr (nd st : Nat)
  | vec (e : Ty)
  | other
  deriving DecidableEq, Repr, Inhabited

inductive Op where
  /-- `Input(t)`; `ty` = interned full type -/
  | input (ty : Nat)
  /-- `Constant(t, v)`; `vid` = interned (type, value); `num = some c` iff t is scalar UINT64 and v = c -/
  | constant (vid : Nat) (num : Option Nat)
  /-- `is_randomizing()` operations (Random, RandomPermutation, CuckooToPermutation, DecomposeSwitchingMap) -/
  | random (tag : Nat)
  /-- `is_prf_operation()` (PRF, PermutationFromPRF) -/
  | prf (tag : Nat)
  | nop
  | createTuple
  | createNamedTuple (names : List Nat)
  | createVector (tag : Nat)
  | tupleGet (j : Nat)
  | namedTupleGet (name : Nat)
  | vectorGet
  | zip
  | arrayToVector
  /-- `Get([i])` -/
  | get (i : Nat)
  /-- `GetSlice([SingleIndex(i), Ellipsis])` -/
  | getSlice (i : Nat)
  | a2b
  | b2a (st : Nat)
  /-- any other operation; `foldable = is_const_optimizable()` (false for Zeros / Ones) -/
  | other (tag : Nat) (foldable : Bool)
  deriving DecidableEq, Repr, Inhabited

structure Node where
  op : Op
  deps : List Nat
  ann : List Nat
  name : Option Nat
  ty : Ty
  deriving DecidableEq, Repr, Inhabited

structure Graph where
  nodes : List Node
  out : Nat
  deriving DecidableEq, Repr

abbrev Mapping := List (Option Nat)

/-- `ContextMappings::get_node` (the Rust function panics on a missing entry; the passes only ask for
    dependencies, which precede their user and have been inserted) -/
def look (m : Mapping) (d : Nat) : Nat := (m.getD d none).getD 0

namespace Op
def isInput : Op → Bool
  | .input _ => true
  | _ => false
def isRandom : Op → Bool
  | .random _ => true
  | _ => false
def isPrf : Op → Bool
  | .prf _ => true
  | _ => false
def isConstant : Op → Bool
  | .constant _ _ => true
  | _ => false
/-- `Operation::is_const_optimizable` (graphs.rs:269) for non-Constant operations -/
def foldable : Op → Bool
  | .input _ => false
  | .random _ => false
  | .prf _ => false
  | .other _ f => f
  | _ => true
end Op

/-- copy of a source node with re-mapped dependencies (`add_node_with_type` + annotations + name) -/
def Node.remap (m : Mapping) (n : Node) : Node := { n with deps := n.deps.map (look m) }

/- ------------------------------------------------------------------------------------------
   constants  (constant_optimizer.rs::optimize_graph_constants)
   ------------------------------------------------------------------------------------------ -/

structure CSt where
  out : List Node
  m : Mapping
  /-- `constant_cache`: (type, value) id → new constant node -/
  cache : List (Nat × Nat)
  /-- `constant_nodes`: which source nodes have a known constant value -/
  isConst : List Bool
  deriving Repr

def assocGet (k : Nat) : List (Nat × Nat) → Option Nat
  | [] => none
  | (a, b) :: r => if a = k then some b else assocGet k r

/-- `resolve_const`: reuse the cached node, else add a Constant node (named only when created) -/
def resolveConst (st : CSt) (c : Op) (name : Option Nat) (ty : Ty) (vid : Nat) : CSt :=
  match assocGet vid st.cache with
  | some k => { st with m := st.m ++ [some k], isConst := st.isConst ++ [true] }
  | none =>
    { out := st.out ++ [{ op := c, deps := [], ann := [], name := name, ty := ty }],
      m := st.m ++ [some st.out.length],
      cache := st.cache ++ [(vid, st.out.length)],
      isConst := st.isConst ++ [true] }

/-- one loop iteration; `oracle i` = (value id, UINT64 number) of the value that
    `evaluator.evaluate_node` yields for source node `i` when all its dependencies are constants -/
def constStep (oracle : Nat → Nat × Option Nat) (st : CSt) (n : Node) : CSt :=
  match n.op with
  | .constant vid num => resolveConst st (.constant vid num) n.name n.ty vid
  | op =>
    if op.foldable ∧ (n.deps.all fun d => st.isConst.getD d false) ∧ n.ann = [] then
      resolveConst st (.constant (oracle st.m.length).1 (oracle st.m.length).2) n.name n.ty
        (oracle st.m.length).1
    else
      { st with out := st.out ++ [n.remap st.m], m := st.m ++ [some st.out.length],
                isConst := st.isConst ++ [false] }

def constants (oracle : Nat → Nat × Option Nat) (g : Graph) : Graph × Mapping :=
  let st := g.nodes.foldl (constStep oracle) ⟨[], [], [], []⟩
  (⟨st.out, look st.m g.out⟩, st.m)

/-- the pass returns `Err` on an annotated Constant node -/
def constantsOk (g : Graph) : Bool :=
  g.nodes.all fun n => !(n.op.isConstant && !n.ann.isEmpty)

/- ------------------------------------------------------------------------------------------
   duplicates  (duplicates_optimizer.rs::optimize_graph_duplicates)
   ------------------------------------------------------------------------------------------ -/

/-- `NodeKey` = (new dependency ids, annotations, operation) -/
abbrev Key := List Nat × List Nat × Op

/-- `NodeKey::new`: no key for PRF / randomising / input / constant nodes -/
def nodeKey (n : Node) (depIds : List Nat) : Option Key :=
  if n.op.isPrf || n.op.isRandom || n.op.isInput || n.op.isConstant then none
  else some (depIds, n.ann, n.op)

def sigGet (k : Key) : List (Key × Nat) → Option Nat
  | [] => none
  | (a, b) :: r => if a = k then some b else sigGet k r

structure DSt where
  out : List Node
  m : Mapping
  sigs : List (Key × Nat)
  deriving Repr

def dupStep (st : DSt) (n : Node) : DSt :=
  let depIds := n.deps.map (look st.m)
  match nodeKey n depIds with
  | none => { st with out := st.out ++ [n.remap st.m], m := st.m ++ [some st.out.length] }
  | some key =>
    match sigGet key st.sigs with
    | some k => { st with m := st.m ++ [some k] }
    | none =>
      { out := st.out ++ [n.remap st.m], m := st.m ++ [some st.out.length],
        sigs := st.sigs ++ [(key, st.out.length)] }

def duplicates (g : Graph) : Graph × Mapping :=
  let st := g.nodes.foldl dupStep ⟨[], [], []⟩
  (⟨st.out, look st.m g.out⟩, st.m)

/- ------------------------------------------------------------------------------------------
   dangling  (dangling_nodes_optimizer.rs::optimize_graph_dangling_nodes)
   ------------------------------------------------------------------------------------------ -/

def markAll (marks : List Bool) : List Nat → List Bool
  | [] => marks
  | d :: ds => markAll (marks.set d true) ds

/-- the reverse sweep: `rev` = nodes not yet visited, last first; the node visited has id `rev.length - 1` -/
def sweep : List Node → List Bool → List Bool
  | [], marks => marks
  | n :: rev, marks =>
    sweep rev (if marks.getD rev.length false then markAll marks n.deps else marks)

/-- `useful_nodes` as a bit per node -/
def useful (g : Graph) : List Bool :=
  sweep g.nodes.reverse ((List.replicate g.nodes.length false).set g.out true)

structure KSt where
  out : List Node
  m : Mapping
  deriving Repr

def dangStep (marks : List Bool) (st : KSt) (n : Node) : KSt :=
  if !n.op.isInput && !marks.getD st.m.length false then { st with m := st.m ++ [none] }
  else { out := st.out ++ [n.remap st.m], m := st.m ++ [some st.out.length] }

def dangling (g : Graph) : Graph × Mapping :=
  let st := g.nodes.foldl (dangStep (useful g)) ⟨[], []⟩
  (⟨st.out, look st.m g.out⟩, st.m)

/- ------------------------------------------------------------------------------------------
   meta operations  (meta_operation_optimizer.rs::optimize_graph_meta_operations)
   ------------------------------------------------------------------------------------------ -/

/-- `ProxyObject`; an element of a tuple / vector / zip is a `ProxyObjectWithNode` = (proxy, node) -/
inductive Proxy where
  | number (c : Nat)
  | unknown
  | a2v (arr : Nat)
  | tuple (es : List (Proxy × Nat))
  | named (es : List (Nat × (Proxy × Nat)))
  | zip (es : List (Proxy × Nat))
  | vector (es : List (Proxy × Nat))
  | a2b (n : Nat)
  | b2a (n : Nat)
  deriving Repr, Inhabited

abbrev PN := Proxy × Nat

/-- `HashMap::insert` then lookup: the last inserted entry for a name wins -/
def namedGet (nm : Nat) : List (Nat × PN) → Option PN
  | [] => none
  | (a, b) :: r =>
    match namedGet nm r with
    | some x => some x
    | none => if a = nm then some b else none

def tyOf (out : List Node) (k : Nat) : Ty := (out.getD k default).ty

def elemTy : Ty → Ty
  | .vec e => e
  | _ => .other

def mkNode (op : Op) (deps : List Nat) (ty : Ty) : Node :=
  { op := op, deps := deps, ann := [], name := none, ty := ty }

mutual
/-- `maybe_vector_get`.  Outer `none` = the Rust code panics (index out of range of a proxied
    vector); inner `none` = `Ok(None)`.  The out graph is threaded through because nodes are
    created on the way (they stay even when a later zip component fails).  `fuel` bounds the
    nesting depth of the proxy (never exhausted: depth ≤ number of nodes). -/
def vget (fuel : Nat) (out : List Node) (p : PN) (index idxNode : Nat) :
    Option (Option PN × List Node) :=
  match fuel with
  | 0 => none
  | fuel + 1 =>
    match p.1 with
    | .vector es =>
      match es[index]? with
      | some e => some (some e, out)
      | none => none
    | .a2v arr =>
      match tyOf out arr with
      | .arr 1 st => some (some (.unknown, out.length), out ++ [mkNode (.get index) [arr] (.arr 0 st)])
      | .arr nd st =>
        some (some (.unknown, out.length), out ++ [mkNode (.getSlice index) [arr] (.arr (nd - 1) st)])
      | _ => some (some (.unknown, out.length), out ++ [mkNode (.getSlice index) [arr] .other])
    | .unknown =>
      some (some (.unknown, out.length),
            out ++ [mkNode .vectorGet [p.2, idxNode] (elemTy (tyOf out p.2))])
    | .zip vecs =>
      match vgetAll fuel out vecs index idxNode [] with
      | none => none
      | some (none, out') => some (none, out')
      | some (some sl, out') =>
        some (some (.tuple sl, out'.length), out' ++ [mkNode .createTuple (sl.map (·.2)) .other])
    | _ => some (none, out)

/-- the loop over the zip components (stops at the first `Ok(None)`) -/
def vgetAll (fuel : Nat) (out : List Node) (vecs : List PN) (index idxNode : Nat) (acc : List PN) :
    Option (Option (List PN) × List Node) :=
  match fuel with
  | 0 => none
  | fuel + 1 =>
    match vecs with
    | [] => some (some acc, out)
    | v :: vs =>
      match vget fuel out v index idxNode with
      | none => none
      | some (none, out') => some (none, out')
      | some (some s, out') => vgetAll fuel out' vs index idxNode (acc ++ [s])
end

structure MSt where
  out : List Node
  m : Mapping
  /-- `meta_objects`, indexed by source node id -/
  px : List (Option PN)
  deriving Repr

/-- `maybe_apply_meta_op` (all dependencies have a proxy) -/
def applyMeta (fuel : Nat) (out : List Node) (op : Op) (deps : List PN) :
    Option (Option PN × List Node) :=
  match op, deps with
  | .namedTupleGet nm, [d] =>
    match d.1 with
    | .named es =>
      match namedGet nm es with
      | some e => some (some e, out)
      | none => none
    | _ => some (none, out)
  | .namedTupleGet _, _ => none
  | .tupleGet j, [d] =>
    match d.1 with
    | .tuple es =>
      match es[j]? with
      | some e => some (some e, out)
      | none => none
    | _ => some (none, out)
  | .tupleGet _, _ => none
  | .vectorGet, [v, i] =>
    match i.1 with
    | .number index => vget fuel out v index i.2
    | _ => some (none, out)
  | .vectorGet, _ => none
  | _, _ => some (none, out)

/-- element list of CreateTuple / CreateVector / Zip / CreateNamedTuple: the proxy of the
    dependency if there is one, else `UnknownNode` on the mapped dependency -/
def elems (deps : List Nat) (metaDeps : List (Option PN)) : List PN :=
  (deps.zip metaDeps).map fun (d, md) =>
    match md with
    | some p => p
    | none => (.unknown, d)

def addAnn (out : List Node) (k : Nat) (anns : List Nat) : List Node :=
  match anns with
  | [] => out
  | _ => out.modify k (fun n => { n with ann := n.ann ++ anns })

def metaStep (fuel : Nat) (st? : Option MSt) (n : Node) : Option MSt :=
  match st? with
  | none => none
  | some st =>
    let deps := n.deps.map (look st.m)
    let metaDeps := n.deps.map (fun d => st.px.getD d none)
    let simple := st.out.length
    -- the annotations are added below to whichever node is chosen, so the simple node starts bare
    let out := st.out ++ [{ op := n.op, deps := deps, ann := [], name := n.name, ty := n.ty }]
    let r : Option (Option PN × List Node) :=
      match n.op with
      | .constant _ num =>
        match num with
        | some c => some (some (.number c, simple), out)
        | none => some (none, out)
      | .arrayToVector => some (some (.a2v (deps.headD 0), simple), out)
      | .a2b =>
        let node := match metaDeps.headD none with
          | some (.b2a bin, _) => bin
          | _ => simple
        some (some (.a2b (deps.headD 0), node), out)
      | .b2a st' =>
        let node := match metaDeps.headD none with
          | some (.a2b ar, _) =>
            (match tyOf out ar with
             | .arr _ s => if st' = s then ar else simple
             | _ => simple)
          | _ => simple
        some (some (.b2a (deps.headD 0), node), out)
      | .createNamedTuple names =>
        some (some (.named (names.zip (elems deps metaDeps)), simple), out)
      | .createTuple => some (some (.tuple (elems deps metaDeps), simple), out)
      | .createVector _ => some (some (.vector (elems deps metaDeps), simple), out)
      | .zip => some (some (.zip (elems deps metaDeps), simple), out)
      | op =>
        if metaDeps.all Option.isSome then
          applyMeta fuel out op (metaDeps.filterMap id)
        else some (none, out)
    match r with
    | none => none
    | some (mn, out') =>
      let newNode := match mn with
        | some p => p.2
        | none => simple
      some { out := addAnn out' newNode n.ann, m := st.m ++ [some newNode], px := st.px ++ [mn] }

/-- fuel for `vget`: one unit per nesting level and per zip component on a path -/
def metaFuel (g : Graph) : Nat := g.nodes.length + (g.nodes.map (·.deps.length)).sum + 2

def metaOps (g : Graph) : Option (Graph × Mapping) :=
  match g.nodes.foldl (metaStep (metaFuel g)) (some ⟨[], [], []⟩) with
  | none => none
  | some st => some (⟨st.out, look st.m g.out⟩, st.m)

/- ------------------------------------------------------------------------------------------
   mapping chain (custom_ops.rs: ContextMappings::join / new_from_chain) and the pipeline
   (optimize.rs::optimize_context, one graph)
   ------------------------------------------------------------------------------------------ -/

/-- `join`: (v1 → v3) whenever (v1 → v2) ∈ m1 and (v2 → v3) ∈ m2 -/
def join (m1 m2 : Mapping) : Mapping :=
  m1.map fun
    | none => none
    | some k => m2.getD k none

def chain : List Mapping → Mapping
  | [] => []
  | m :: ms => ms.foldl join m

/-- constants → meta operations → duplicates → dangling.  `oracle` as in `constStep`. -/
def optimize (oracle : Nat → Nat × Option Nat) (g : Graph) : Option (Graph × Mapping) :=
  if !constantsOk g then none else
  let (g1, m1) := constants oracle g
  match metaOps g1 with
  | none => none
  | some (g2, m2) =>
    let (g3, m3) := duplicates g2
    let (g4, m4) := dangling g3
    some (g4, chain [m1, m2, m3, m4])

end CCV.Optimizer
