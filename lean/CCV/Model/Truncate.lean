/-
  Secure truncation (ciphercore-base/src/mpc/mpc_truncate.rs) and the plaintext `Truncate`
  of the simple evaluator, on residues modulo `2^s` (`s` = bit width of the scalar type).
  Import-free: linked into the model driver.

  All values are `Nat` residues in `[0, 2^s)`; a value of a signed type denotes the two's
  complement integer `sint s v`.  `A2B`/`B2A` are the identity on residues (they only change the
  type tag), multiplication of bit arrays is bitwise AND (`&&&`).  Arrays are handled
  element-wise by the protocol, so the model is per element.
-/
namespace CCV.Truncate

/-- `Add` of the evaluator on a `s`-bit type (`M = 2^s`). -/
def addm (M a b : Nat) : Nat := (a + b) % M
/-- `Subtract` of the evaluator on a `s`-bit type. -/
def subm (M a b : Nat) : Nat := (a + (M - b % M)) % M
/-- `Multiply` of the evaluator on a `s`-bit type. -/
def mulm (M a b : Nat) : Nat := (a * b) % M

/-- two's complement integer denoted by the residue `v` in a signed `s`-bit type
    (simple_evaluator.rs:973-977 `if val >= modulus/2 { val -= modulus }`). -/
def sint (s v : Nat) : Int := if 2 ^ (s - 1) ≤ v then (v : Int) - ((2 ^ s : Nat) : Int) else (v : Int)

/-- the integer a residue denotes in a type of width `s` and given signedness. -/
def toInt (s : Nat) (signed : Bool) (v : Nat) : Int := if signed = true then sint s v else (v : Int)

/-- residue of an integer modulo `2^s`. -/
def ofInt (s : Nat) (x : Int) : Nat := (x % ((2 ^ s : Nat) : Int)).toNat

/-- Plaintext `Operation::Truncate(d)` (simple_evaluator.rs:962-1003) on one entry `v < 2^s`:
    signed → interpret `v` as two's complement, Rust `/` on `i128` (rounds toward zero), add the
    modulus back when negative; unsigned → `v / d` (floor). -/
def truncPlain (s : Nat) (signed : Bool) (d : Nat) (v : Nat) : Nat :=
  if signed = true then
    let res := Int.tdiv (sint s v) (d : Int)
    (if res < 0 then res + ((2 ^ s : Nat) : Int) else res).toNat
  else v / d

/-- The six PRF outputs drawn by `TruncateMPC2K`, in the order the nodes are created:
    `r` (key k_2), `r0`, `rmsb0`, `rtr0` (key k_02, `share_for_two` of r, r_msb, r_truncated),
    `y0` (key k_02), `y2` (key k_12). -/
structure Masks2K where
  r : Nat
  r0 : Nat
  rmsb0 : Nat
  rtr0 : Nat
  y0 : Nat
  y2 : Nat
  deriving Repr

/-- Everything `TruncateMPC2K` computes that is of interest (the output is `(y0, y1, y2)`). -/
structure Out2K where
  /-- the value revealed to parties 0 and 1 in step 8 -/
  c : Nat
  /-- 2-out-of-2 shares of the result before re-masking (step 11) -/
  yp0 : Nat
  yp1 : Nat
  y0 : Nat
  y1 : Nat
  y2 : Nat
  deriving Repr

/-- `TruncateMPC2K { k }::instantiate` on a private input (mpc_truncate.rs:265-448), steps 0–15,
    per array element.  `x0 x1 x2` are the three additive input shares. -/
def trunc2k (s k : Nat) (signed : Bool) (x0 x1 x2 : Nat) (m : Masks2K) : Out2K :=
  let M := 2 ^ s
  -- `if self.k == 0 { input_node.set_as_output() }`
  if k = 0 then { c := 0, yp0 := 0, yp1 := 0, y0 := x0, y1 := x1, y2 := x2 } else
  -- 0. signed: add modulus/4 to the first share
  let x0' := if signed = true then addm M x0 (2 ^ (s - 2)) else x0
  -- 1. r = PRF(k_2)
  let r := m.r
  -- 2. r_msb: AND with 2^(s-1), B2A(unsigned), Truncate(2^(s-1)), A2B, B2A(st)
  let rmsb := truncPlain s false (2 ^ (s - 1)) (r &&& 2 ^ (s - 1))
  -- 3. r_truncated: AND with 2^(s-1) - 2^k, B2A(st), Truncate(2^k) (on the type st itself)
  let rtr := truncPlain s signed (2 ^ k) (r &&& (2 ^ (s - 1) - 2 ^ k))
  -- 4. share_for_two: val0 = PRF(k_02), val1 = val - val0
  let r1 := subm M r m.r0
  let rmsb1 := subm M rmsb m.rmsb0
  let rtr1 := subm M rtr m.rtr0
  -- 6. z0 = x0 + x1, z1 = x2
  let z0 := addm M x0' x1
  let z1 := x2
  -- 7. c0 = z0 + r0, c1 = z1 + r1
  let c0 := addm M z0 m.r0
  let c1 := addm M z1 r1
  -- 8. c revealed; c_truncated = (c as unsigned)/2^k; c_truncated_mod = AND with 2^(s-1-k) - 1
  let c := addm M c0 c1
  let ctr := truncPlain s false (2 ^ k) c
  let ctm := ctr &&& (2 ^ (s - 1 - k) - 1)
  -- 9. c_msb = (c as unsigned) / 2^(s-1)
  let cmsb := truncPlain s false (2 ^ (s - 1)) c
  -- 10. b0 = r_msb0 - r_msb0*c_msb*2 + c_msb ; b1 = r_msb1 - r_msb1*c_msb*2
  let b0 := addm M (subm M m.rmsb0 (mulm M (mulm M m.rmsb0 cmsb) 2)) cmsb
  let b1 := subm M rmsb1 (mulm M (mulm M rmsb1 cmsb) 2)
  -- 11. y'0 = b0*2^(s-1-k) - r_truncated0 + c_truncated_mod ; y'1 = b1*2^(s-1-k) - r_truncated1
  let p2 := 2 ^ (s - 1 - k)
  let yp0 := addm M (subm M (mulm M b0 p2) m.rtr0) ctm
  let yp1 := subm M (mulm M b1 p2) rtr1
  -- 12./13. y~0 = y'0 - y0 ; y~1 = y'1 - y2
  let yt0 := subm M yp0 m.y0
  let yt1 := subm M yp1 m.y2
  -- 14. y1 = y~0 + y~1 ; 14!. signed: subtract modulus/2^(k+2)
  let sum01 := addm M yt0 yt1
  let y1 := if signed = true then subm M sum01 (2 ^ (s - 2 - k)) else sum01
  -- 15.
  { c := c, yp0 := yp0, yp1 := yp1, y0 := m.y0, y1 := y1, y2 := m.y2 }

/-- `TruncateMPC { scale }::instantiate` on a private (signed) input (mpc_truncate.rs:90-127):
    share 0 is truncated, shares 1 and 2 are added, truncated and re-masked with `r = PRF(k_12)`,
    which becomes share 2.  Output `(res0, res1, res2)`. -/
def truncGeneral (s d : Nat) (x0 x1 x2 r : Nat) : Nat × Nat × Nat :=
  let M := 2 ^ s
  if d = 1 then (x0, x1, x2) else
  let res0 := truncPlain s true d x0
  let res1 := subm M (truncPlain s true d (addm M x1 x2)) r
  (res0, res1, r)

/-- revealing a 3-out-of-3 additive sharing. -/
def reveal (s : Nat) (y : Nat × Nat × Nat) : Nat := (y.1 + y.2.1 + y.2.2) % 2 ^ s

def Out2K.shares (o : Out2K) : Nat × Nat × Nat := (o.y0, o.y1, o.y2)

/-- `u128::is_power_of_two`. -/
def isPow2 (d : Nat) : Bool := d != 0 && 2 ^ d.log2 == d

/-- which protocol the compiler instantiates for `Truncate(scale)` on a private input
    (mpc_compiler.rs:581-619 + the type checks of the two custom operations):
    power of two → `TruncateMPC2K{k = trailing_zeros}`; otherwise `TruncateMPC{scale}`, which
    rejects unsigned types. `scale = 0` is rejected by type inference, and so is a scale above
    `i128::MAX` on a signed type (type_inference.rs:806-818). -/
inductive Proto where
  | pow2 (k : Nat)
  | general (d : Nat)
  | reject
  deriving Repr, DecidableEq

def choose (signed : Bool) (scale : Nat) : Proto :=
  if scale = 0 then .reject
  else if signed = true ∧ scale > 2 ^ 127 - 1 then .reject
  else if isPow2 scale = true then .pow2 scale.log2
  else if signed = true then .general scale
  else .reject

/-- The compiled `Truncate(scale)` on a private input, per element: the three output shares.
    `masks` are the values of the protocol's PRF nodes in creation order (6 for 2^k, none if k = 0;
    1 for a general divisor, none if scale = 1). -/
def truncPrivate (s : Nat) (signed : Bool) (scale : Nat) (x0 x1 x2 : Nat) (masks : List Nat) :
    Except String (Nat × Nat × Nat) :=
  match choose signed scale, masks with
  | .pow2 0, [] => .ok (x0, x1, x2)
  | .pow2 (k + 1), [r, r0, rmsb0, rtr0, y0, y2] =>
    .ok (trunc2k s (k + 1) signed x0 x1 x2 ⟨r, r0, rmsb0, rtr0, y0, y2⟩).shares
  | .general d, [r] => .ok (truncGeneral s d x0 x1 x2 r)
  | .reject, _ => .error "rejected"
  | _, _ => .error "masks"

/-- The compiled `Truncate(scale)` on a public input is the plaintext operation
    (mpc_truncate.rs:35-52 / 193-205; scale 1 returns the input).  The same choice of custom
    operation applies, so a non-power-of-two scale on an unsigned type is rejected here too. -/
def truncPublic (s : Nat) (signed : Bool) (scale : Nat) (x : Nat) : Except String Nat :=
  match choose signed scale with
  | .reject => .error "rejected"
  | .pow2 0 => .ok x
  | .pow2 (k + 1) => .ok (truncPlain s signed (2 ^ (k + 1)) x)
  | .general d => .ok (if d = 1 then x else truncPlain s signed d x)

end CCV.Truncate
