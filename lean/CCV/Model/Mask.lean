/-
  C03 (ii): the mask-discipline CHECKER on an exported protocol graph, as seen by one observer.

  The harness exports, for an observer party p, the compiled graph with every node classified:
    hid i    — an input p does not know (a secret of another party)
    own i    — an input p knows (its own or a public one)
    tapeU v  — a PRF output whose key p does NOT hold / a value drawn by another party: tape variable v
    tapeK v  — a PRF output whose key p holds (a known mask)
    nop, add, sub — as in the graph;   op tag — any other operation (an arbitrary function)
  together with a certificate: the messages delivered to p that are not computable by p, LAST FIRST,
  each with its pivot tape variable.  `discOk` checks the discipline syntactically; its soundness
  (Lemmas/Mask.lean) turns it into the hypothesis `Disc` of `pivot_discipline_hides`.
  Import-free.
-/
namespace CCV.Mask

inductive Kind where
  | hid (i : Nat)
  | own (i : Nat)
  | tapeU (v : Nat)
  | tapeK (v : Nat)
  | nop
  | add
  | sub
  | op (tag : Nat)
  deriving DecidableEq, Repr

structure Node where
  k : Kind
  deps : List Nat
  deriving Repr

/-- how a node depends on one tape variable: not at all, with coefficient +1, with coefficient −1
    (plus something independent of it), or in some other way -/
inductive Cls where
  | indep | pos | neg | bad
  deriving DecidableEq, Repr

def clsAdd : Cls → Cls → Cls
  | .indep, c => c
  | c, .indep => c
  | _, _ => .bad

def clsNeg : Cls → Cls
  | .indep => .indep
  | .pos => .neg
  | .neg => .pos
  | .bad => .bad

def clsNode (v : Nat) (env : List Cls) (n : Node) : Cls :=
  let d (j : Nat) : Cls := env.getD (n.deps.getD j 0) .bad
  match n.k with
  | .hid _ => .indep
  | .own _ => .indep
  | .tapeU w => if w = v then .pos else .indep
  | .tapeK _ => .indep
  | .nop => if n.deps.length = 1 then d 0 else .bad
  | .add => if n.deps.length = 2 then clsAdd (d 0) (d 1) else .bad
  | .sub => if n.deps.length = 2 then clsAdd (d 0) (clsNeg (d 1)) else .bad
  | .op _ => if n.deps.all (fun j => env.getD j .bad == .indep) then .indep else .bad

/-- classes of all nodes with respect to tape variable `v` -/
def clsRun (v : Nat) : List Node → List Cls → List Cls
  | [], env => env
  | n :: g, env => clsRun v g (env ++ [clsNode v env n])

def wellScoped : List Node → Nat → Bool
  | [], _ => true
  | n :: g, k => n.deps.all (· < k) && wellScoped g (k + 1)

/-- certificate: (message node, pivot tape variable), LAST message FIRST -/
abbrev Cert := List (Nat × Nat)

def discOkAux (g : List Node) : Cert → Bool
  | [] => true
  | (m, v) :: rest =>
    let cl := clsRun v g []
    (cl.getD m .bad == .pos || cl.getD m .bad == .neg) &&
    rest.all (fun (m', v') => cl.getD m' .bad == .indep && v' != v) &&
    discOkAux g rest

/-- the whole check: scoping, message nodes in range, the discipline -/
def discOk (g : List Node) (cert : Cert) : Bool :=
  wellScoped g 0 && cert.all (fun (m, _) => decide (m < g.length)) && discOkAux g cert

/-- a node the observer can compute itself: no hidden input and no unknown tape variable in its cone -/
def compNode (env : List Bool) (n : Node) : Bool :=
  match n.k with
  | .hid _ => false
  | .tapeU _ => false
  | _ => n.deps.all (fun j => env.getD j false)

def compRun : List Node → List Bool → List Bool
  | [], env => env
  | n :: g, env => compRun g (env ++ [compNode env n])

def compOk (g : List Node) (ms : List Nat) : Bool :=
  wellScoped g 0 && ms.all (fun m => (compRun g []).getD m false)

end CCV.Mask
