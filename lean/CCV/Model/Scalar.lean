/-
  Scalar types of ciphercore (data_types.rs `ScalarType`): one bit, and signed / unsigned
  integers of 8..128 bits.  Import-free so that the model driver links as a `lean_exe`.
-/
namespace CCV

inductive ST where
  | bit | u8 | i8 | u16 | i16 | u32 | i32 | u64 | i64 | u128 | i128
  deriving DecidableEq, Repr, Inhabited

namespace ST

/-- `ScalarType::size_in_bits`. -/
def bits : ST → Nat
  | bit => 1 | u8 => 8 | i8 => 8 | u16 => 16 | i16 => 16 | u32 => 32 | i32 => 32
  | u64 => 64 | i64 => 64 | u128 => 128 | i128 => 128

/-- `ScalarType::is_signed`. -/
def signed : ST → Bool
  | i8 => true | i16 => true | i32 => true | i64 => true | i128 => true
  | _ => false

/-- `scalar_size_in_bytes`. -/
def byteLen (s : ST) : Nat := (s.bits + 7) / 8

/-- modulus `2^bits`. -/
def modulus (s : ST) : Nat := 2 ^ s.bits

def all : List ST := [bit, u8, i8, u16, i16, u32, i32, u64, i64, u128, i128]

def name : ST → String
  | bit => "bit" | u8 => "u8" | i8 => "i8" | u16 => "u16" | i16 => "i16" | u32 => "u32"
  | i32 => "i32" | u64 => "u64" | i64 => "i64" | u128 => "u128" | i128 => "i128"

def parse (s : String) : Option ST :=
  all.find? (fun t => t.name == s)

/-- The integer a stored residue `r < 2^bits` denotes in type `s` (two's complement when signed). -/
def toInt (s : ST) (r : Nat) : Int :=
  if s.signed = true ∧ 2 ^ (s.bits - 1) ≤ r % 2 ^ s.bits then (r % 2 ^ s.bits : Nat) - (2 ^ s.bits : Nat)
  else (r % 2 ^ s.bits : Nat)

/-- Residue of an arbitrary integer in type `s`. -/
def ofInt (s : ST) (x : Int) : Nat := (x % (2 ^ s.bits : Nat)).toNat

end ST
end CCV
