import CCV.Model.Bytes
/-
  Model of the container part of C13:
  * `Value::check_type` / `Value::zero_of_type` / scalar accessors `Value::to_u128`, `to_u8 … to_i128`
    and `to_flattened_array_u8 … i128` (ciphercore-base/src/data_values.rs),
  * `Type::is_valid`, `is_valid_shape` (data_types.rs),
  * the human-readable (JSON) form of `TypedValue`: `serialize_human_readable`, `ShapedArray::serialize`,
    `SerializedDataModelVisitor::{visit_i64,visit_u64,visit_bool,visit_map,visit_seq}`,
    `deserialize_human_readable` (typed_value_serialization.rs) together with the constructors they call
    (`TypedValue::{new,new_named,from_scalar,from_ndarray,from_vector,to_vector}`, typed_value.rs).

  JSON is the small AST `J`; serde_json is built with `arbitrary_precision`, so every integer literal
  reaches the visitor exactly (as `visit_u64`, `visit_i64` or the private big-number map).
  Sizes are unbounded naturals: the `u64` overflow errors of `get_size_in_bits` are not modelled.
-/
namespace CCV.TV
open CCV CCV.Bytes

inductive Ty where
  | scalar (st : ST)
  | array (shape : List Nat) (st : ST)
  | vector (n : Nat) (t : Ty)
  | tuple (ts : List Ty)
  | named (fs : List (String × Ty))
  deriving Repr, Inhabited

inductive Val where
  | bytes (bs : List Nat)
  | vec (vs : List Val)
  deriving Repr, Inhabited

inductive J where
  | num (n : Int)
  | str (s : String)
  | bool (b : Bool)
  | null
  | arr (xs : List J)
  | obj (kvs : List (String × J))
  deriving Repr, Inhabited

mutual
/-- `Type == Type` (derived `PartialEq`) -/
def Ty.beq : Ty → Ty → Bool
  | .scalar a, .scalar b => a == b
  | .array s a, .array s' b => s == s' && a == b
  | .vector n t, .vector n' t' => n == n' && Ty.beq t t'
  | .tuple ts, .tuple ts' => beqL ts ts'
  | .named fs, .named fs' => beqN fs fs'
  | _, _ => false
def beqL : List Ty → List Ty → Bool
  | [], [] => true
  | t :: ts, t' :: ts' => Ty.beq t t' && beqL ts ts'
  | _, _ => false
def beqN : List (String × Ty) → List (String × Ty) → Bool
  | [], [] => true
  | (n, t) :: fs, (n', t') :: fs' => n == n' && Ty.beq t t' && beqN fs fs'
  | _, _ => false
end

/-- `is_valid_shape`: non-empty, no zero dimension, product fits in `u64`. -/
def isValidShape (s : List Nat) : Bool :=
  !s.isEmpty && s.all (fun d => decide (0 < d)) && (s.foldl (· / ·) (2 ^ 64 - 1) != 0)

/-- names are pairwise different (`sort; dedup; len ==`). -/
def nodupB : List String → Bool
  | [] => true
  | x :: xs => !xs.contains x && nodupB xs

mutual
/-- `Type::is_valid`. -/
def Ty.isValid : Ty → Bool
  | .scalar _ => true
  | .array s _ => isValidShape s
  | .vector _ t => t.isValid
  | .tuple ts => allValid ts
  | .named fs => nodupB (fs.map (·.1)) && allValidN fs
def allValid : List Ty → Bool
  | [] => true
  | t :: ts => t.isValid && allValid ts
def allValidN : List (String × Ty) → Bool
  | [] => true
  | (_, t) :: fs => t.isValid && allValidN fs
end

mutual
/-- the recursion of `Value::check_type` on a valid type: byte length for scalars / arrays,
    same number of children and every child checks for vectors / tuples / named tuples. -/
def checkB : Ty → Val → Bool
  | .scalar st, .bytes bs => checkArrayType bs.length [] st
  | .array sh st, .bytes bs => checkArrayType bs.length sh st
  | .vector n t, .vec vs => decide (vs.length = n) && vs.all (fun v => checkB t v)
  | .tuple ts, .vec vs => checkL ts vs
  | .named fs, .vec vs => checkN fs vs
  | _, _ => false
def checkL : List Ty → List Val → Bool
  | [], [] => true
  | t :: ts, v :: vs => checkB t v && checkL ts vs
  | _, _ => false
def checkN : List (String × Ty) → List Val → Bool
  | [], [] => true
  | (_, t) :: fs, v :: vs => checkB t v && checkN fs vs
  | _, _ => false
end

/-- `Value::check_type`: `Err` on an invalid type (`get_size_in_bits`), otherwise the layout test.
    (The nested `?` on children never fires: children of a valid type are valid.) -/
def checkType (v : Val) (t : Ty) : Except String Bool :=
  if t.isValid then .ok (checkB t v) else .error "Invalid type!"

/-- `check_type(t)` returned `Ok(true)` — what `TypedValue::new` / `new_named` require. -/
def checkOk (v : Val) (t : Ty) : Bool := t.isValid && checkB t v

mutual
/-- `Value::zero_of_type`. -/
def zeroOf : Ty → Val
  | .scalar st => .bytes (List.replicate ((numel [] * st.bits + 7) / 8) 0)
  | .array sh st => .bytes (List.replicate ((numel sh * st.bits + 7) / 8) 0)
  | .vector n t => .vec (List.replicate n (zeroOf t))
  | .tuple ts => .vec (zeroOfL ts)
  | .named fs => .vec (zeroOfN fs)
def zeroOfL : List Ty → List Val
  | [] => []
  | t :: ts => zeroOf t :: zeroOfL ts
def zeroOfN : List (String × Ty) → List Val
  | [] => []
  | (_, t) :: fs => zeroOf t :: zeroOfN fs
end

/-- `Value::to_u128(st)`: decode the bytes, accept exactly one element (eight for a bit). -/
def toU128 (v : Val) (st : ST) : Except String Nat :=
  match v with
  | .vec _ => .error "Invalid Value"
  | .bytes bs =>
    match vecU128FromBytes st bs with
    | .error e => .error e
    | .ok r =>
      if r.length = 1 ∨ (r.length = 8 ∧ st = .bit) then .ok (r.headD 0) else .error "Not a scalar"

/-- the `as uN` / `as iN` cast picked by the serializer for scalar type `st`
    (`to_u8` for bits, `to_u8/to_i8/…/to_i128` otherwise), as a mathematical integer. -/
def castTo (st : ST) (r : Nat) : Int :=
  match st with
  | .bit => ((r % 256 : Nat) : Int)
  | _ => st.toInt r

/-- typed accessor `Value::to_<nb-bit, signed?>(st)` = `to_u128(st) as <native>`. -/
def castNative (nb : Nat) (ns : Bool) (r : Nat) : Int :=
  if ns = true ∧ 2 ^ (nb - 1) ≤ r % 2 ^ nb then ((r % 2 ^ nb : Nat) : Int) - ((2 ^ nb : Nat) : Int)
  else ((r % 2 ^ nb : Nat) : Int)

/-- `ShapedArray::serialize` (elements already cast): one JSON list per dimension. `none` stands for
    `Err` and for the two panics that valid shapes exclude (`% 0`, `chunks(0)`). -/
def shapedJ (st : ST) : List Nat → List Nat → Option J
  | [], _ => none
  | [_], xs => some (.arr (xs.map (fun r => .num (castTo st r))))
  | d :: d' :: rest, xs =>
    if d = 0 then none
    else if xs.length % d ≠ 0 then none
    else if xs.length / d = 0 then none
    else ((chunksExact (xs.length / d) d xs).mapM (shapedJ st (d' :: rest))).map .arr

def tvObj (kind : String) (ty : Option String) (value : J) : J :=
  match ty with
  | some t => .obj [("kind", .str kind), ("type", .str t), ("value", value)]
  | none => .obj [("kind", .str kind), ("value", value)]

mutual
/-- `TypedValue::serialize_human_readable`. -/
def toJ : Ty → Val → Option J
  | .scalar st, v =>
    match toU128 v st with
    | .ok r => some (tvObj "scalar" (some st.name) (.num (castTo st r)))
    | .error _ => none
  | .array sh st, .bytes bs =>
    if isValidShape sh then
      match toFlatU128 bs sh st with
      | .ok r => (shapedJ st sh r).map (tvObj "array" (some st.name))
      | .error _ => none
    else none
  | .array _ _, .vec _ => none
  | .vector n t, .vec vs =>
    if vs.length = n then
      (vs.mapM (fun v => if checkOk v t then toJ t v else none)).map (fun js => tvObj "vector" none (.arr js))
    else none
  | .tuple ts, .vec vs => (toJL ts vs).map (fun js => tvObj "tuple" none (.arr js))
  | .named fs, .vec vs => (toJN fs vs).map (fun js => tvObj "named tuple" none (.arr js))
  | _, .bytes _ => none
/-- `to_vector` of a tuple (each child re-checked by `TypedValue::new`) and serialization of the children -/
def toJL : List Ty → List Val → Option (List J)
  | [], [] => some []
  | t :: ts, v :: vs =>
    if checkOk v t then
      match toJ t v, toJL ts vs with
      | some j, some js => some (j :: js)
      | _, _ => none
    else none
  | _, _ => none
/-- `to_vector` of a named tuple and serialization as `{"name":…,"value":…}` records -/
def toJN : List (String × Ty) → List Val → Option (List J)
  | [], [] => some []
  | (n, t) :: fs, v :: vs =>
    if checkOk v t then
      match toJ t v, toJN fs vs with
      | some j, some js => some (.obj [("name", .str n), ("value", j)] :: js)
      | _, _ => none
    else none
  | _, _ => none
end

/-! ### deserialization -/

abbrev TVal := Ty × Val

/-- `SerializedDataModel` -/
inductive SDM where
  | arr (xs : List Nat) (shape : List Nat)
  | vec (tvs : List TVal)
  | val (tv : TVal)
  | named (fs : List (String × TVal))
  deriving Inhabited

/-- an integer literal as the visitor sees it: `visit_u64`, `visit_i64 … as u128`, or the
    arbitrary-precision path (`parse::<i128>() as u128` when negative, `parse::<u128>()` otherwise). -/
def numToU128 (n : Int) : Option Nat :=
  if 0 ≤ n ∧ n < ((2 ^ 128 : Nat) : Int) then some n.toNat
  else if -((2 ^ 127 : Nat) : Int) ≤ n ∧ n < 0 then some (n + ((2 ^ 128 : Nat) : Int)).toNat
  else none

/-- `TypedValue::from_scalar(x: u128, st)` -/
def fromScalar (x : Nat) (st : ST) : Option TVal :=
  match vecToBytes st [(x : Int)] with
  | .ok bs => some (.scalar st, .bytes bs)
  | .error _ => none

/-- `ShapedArray::to_ndarray` (`into_shape` needs product = length) then `TypedValue::from_ndarray` -/
def fromNdarray (xs shape : List Nat) (st : ST) : Option TVal :=
  if numel shape = xs.length then
    match vecToBytes st (xs.map (fun x => ((x : Nat) : Int))) with
    | .ok bs => some (.array shape st, .bytes bs)
    | .error _ => none
  else none

/-- `vector_from_vector_helper` -/
def vectorFrom (v : List TVal) : Option TVal :=
  let et : Ty := match v with
    | [] => .tuple []
    | (t, _) :: _ => t
  if v.all (fun tv => tv.1.beq et) then some (.vector v.length et, .vec (v.map (·.2))) else none

/-- `tuple_from_vector_helper` on unnamed children (`TypedValue::new` re-checks the whole value) -/
def tupleFrom (v : List TVal) : Option TVal :=
  let t : Ty := .tuple (v.map (·.1))
  let val : Val := .vec (v.map (·.2))
  if checkOk val t then some (t, val) else none

/-- kind "named tuple": `new_named` on every child, then `tuple_from_vector_helper` on named children -/
def namedFrom (fs : List (String × TVal)) : Option TVal :=
  if fs.all (fun f => checkOk f.2.2 f.2.1) then
    match fs with
    | [] => tupleFrom []
    | _ =>
      let t : Ty := .named (fs.map (fun f => (f.1, f.2.1)))
      let val : Val := .vec (fs.map (·.2.2))
      if checkOk val t then some (t, val) else none
  else none

structure Fields where
  kind : Option String := none
  ty : Option String := none
  name : Option String := none
  value : Option SDM := none
  deriving Inhabited

/-- the tail of `visit_map`, after all keys were read -/
def finishMap (f : Fields) : Option SDM :=
  match f.value with
  | none => none
  | some value =>
    match f.name with
    | some n =>
      if f.kind.isSome || f.ty.isSome then none
      else match value with
        | .val tv => some (.named [(n, tv)])
        | _ => none
    | none =>
      match f.kind with
      | none => none
      | some k =>
        if k = "scalar" then
          match f.ty.bind ST.parse, value with
          | some st, .arr [x] _ => (fromScalar x st).map .val
          | _, _ => none
        else if k = "array" then
          match f.ty.bind ST.parse, value with
          | some st, .arr xs sh => (fromNdarray xs sh st).map .val
          | _, _ => none
        else if k = "vector" then
          match value with
          | .vec v => (vectorFrom v).map .val
          | _ => none
        else if k = "tuple" then
          match value with
          | .vec v => (tupleFrom v).map .val
          | _ => none
        else if k = "named tuple" then
          match value with
          | .named v => (namedFrom v).map .val
          | _ => none
        else none

def allArr : List SDM → Option (List Nat)
  | [] => some []
  | .arr xs _ :: r => (allArr r).map (xs ++ ·)
  | _ :: _ => none

def allVal : List SDM → Option (List TVal)
  | [] => some []
  | .val tv :: r => (allVal r).map (tv :: ·)
  | _ :: _ => none

def allNamed : List SDM → Option (List (String × TVal))
  | [] => some []
  | .named f :: r => (allNamed r).map (f ++ ·)
  | _ :: _ => none

/-- the tail of `visit_seq`, after all elements were read -/
def finishSeq (ds : List SDM) : Option SDM :=
  match ds with
  | [] => some (.vec [])
  | .arr _ sh :: _ => (allArr ds).map (fun xs => .arr xs (ds.length :: sh))
  | .vec _ :: _ => none
  | .named _ :: _ => (allNamed ds).map .named
  | .val _ :: _ => (allVal ds).map .vec

mutual
/-- `SerializedDataModel::deserialize` (`deserialize_any` with `SerializedDataModelVisitor`) -/
def ofJ : J → Option SDM
  | .num n => (numToU128 n).map (fun x => .arr [x] [])
  | .bool b => some (.arr [if b then 1 else 0] [])
  | .str _ => none
  | .null => none
  | .arr xs => (ofJL xs).bind finishSeq
  | .obj kvs => (ofJF kvs {}).bind finishMap
def ofJL : List J → Option (List SDM)
  | [] => some []
  | x :: xs =>
    match ofJ x, ofJL xs with
    | some d, some ds => some (d :: ds)
    | _, _ => none
/-- the key loop of `visit_map`: only `kind`, `type`, `name`, `value`, each at most once -/
def ofJF : List (String × J) → Fields → Option Fields
  | [], acc => some acc
  | (k, j) :: rest, acc =>
    if k = "kind" then
      match acc.kind, j with
      | none, .str s => ofJF rest { acc with kind := some s }
      | _, _ => none
    else if k = "type" then
      match acc.ty, j with
      | none, .str s => ofJF rest { acc with ty := some s }
      | _, _ => none
    else if k = "name" then
      match acc.name, j with
      | none, .str s => ofJF rest { acc with name := some s }
      | _, _ => none
    else if k = "value" then
      match acc.value, ofJ j with
      | none, some d => ofJF rest { acc with value := some d }
      | _, _ => none
    else none
end

/-- `TypedValue::deserialize_human_readable` -/
def ofJTop (j : J) : Option TVal :=
  match ofJ j with
  | some (.val tv) => some tv
  | _ => none

/-- byte comparison of `TypedValue::is_equal` for scalar / array types of `bitsize` bits: all complete
    bytes, and the last byte modulo `2^(bitsize % 8)` (both values have passed `check_type`). -/
def bytesEq (bitsize : Nat) (a b : List Nat) : Bool :=
  let r := bitsize % 8
  let complete := if r ≠ 0 then a.length - 1 else a.length
  (a.take complete == b.take complete) &&
    (a.getD (a.length - 1) 0 % 2 ^ r == b.getD (a.length - 1) 0 % 2 ^ r)

mutual
/-- `TypedValue::is_equal` for two values of the same type `t` that both passed `check_type`. -/
def isEqual : Ty → Val → Val → Bool
  | .scalar st, .bytes a, .bytes b => bytesEq st.bits a b
  | .array sh st, .bytes a, .bytes b => bytesEq (numel sh * st.bits) a b
  | .vector _ t, .vec a, .vec b => isEqualV t a b
  | .tuple ts, .vec a, .vec b => isEqualL ts a b
  | .named fs, .vec a, .vec b => isEqualN fs a b
  | _, _, _ => false
def isEqualV : Ty → List Val → List Val → Bool
  | _, [], [] => true
  | t, x :: a, y :: b => isEqual t x y && isEqualV t a b
  | _, _, _ => false
def isEqualL : List Ty → List Val → List Val → Bool
  | [], [], [] => true
  | t :: ts, x :: a, y :: b => isEqual t x y && isEqualL ts a b
  | _, _, _ => false
def isEqualN : List (String × Ty) → List Val → List Val → Bool
  | [], [], [] => true
  | (_, t) :: fs, x :: a, y :: b => isEqual t x y && isEqualN fs a b
  | _, _, _ => false
end

end CCV.TV
