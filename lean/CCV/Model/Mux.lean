/-
  Model of `ciphercore-base/src/ops/multiplexer.rs` (`Mux::instantiate`), one element at a time
  (flag, choice1, choice0 are broadcast element-wise by the graph operations).
-/
namespace CCV.Mux

/-- bit branch: `i_choice0 + i_flag * (i_choice0 + i_choice1)` over GF(2). -/
def muxBit (flag choice1 choice0 : Bool) : Bool := xor choice0 (flag && xor choice0 choice1)

/-- the flag is one bit, the choices are bit strings (flag broadcast over the string). -/
def muxBits (flag : Bool) (choice1 choice0 : List Bool) : List Bool :=
  List.zipWith (muxBit flag) choice1 choice0

/-- `mixed_multiply` of a residue modulo `2^w` by a bit. -/
def mixedMul (w : Nat) (x : Nat) (b : Bool) : Nat := (x * b.toNat) % 2 ^ w

/-- non-bit branch, exactly as the code writes it:
    `i_choice1.mixed_multiply(i_flag) + i_choice0.mixed_multiply(i_flag + 1)` in `Z_{2^w}`
    (`i_flag + 1` is computed on bits, i.e. the negated flag). -/
def muxInt (w : Nat) (flag : Bool) (choice1 choice0 : Nat) : Nat :=
  (mixedMul w choice1 flag + mixedMul w choice0 (xor flag true)) % 2 ^ w

end CCV.Mux
