import CCV.Model.Scalar
import CCV.Model.Shape
/-
  Index-function semantics of the primitive operations, written from the DOCUMENTATION of the
  `Graph` methods (ciphercore-base/src/graphs.rs:1626-3150, which refer to NumPy): an array is a
  function from multi-indices to stored residues, `result[I] = f(operands at broadcast / sliced /
  permuted indices)`, arithmetic in the integers the residues denote, reduced modulo 2^w.
  Nothing here mentions flat positions except `ofFlat`, the row-major reading of a value.
-/
namespace CCV.Spec
open CCV CCV.Shape

/-- an array as an index function (multi-index ↦ stored residue) -/
abbrev Tensor := List Nat → Nat

/-- the array stored row-major in `arr` with shape `shape` -/
def ofFlat (shape arr : List Nat) : Tensor := fun I => arr.getD (flat I shape) 0

/-- `Σ_{k<K} f k` in the integers -/
def sumTo (K : Nat) (f : Nat → Int) : Int := ((List.range K).map f).sum

/-- elementwise binary operation with NumPy broadcasting, in integers mod 2^w
    (`add`, `subtract`, `multiply` docs: "elementwise … with broadcasting", modulo 2^w). -/
def arith (st : ST) (f : Int → Int → Int) (A : Tensor) (sa : List Nat) (B : Tensor) (sb : List Nat) : Tensor :=
  fun I => st.ofInt (f (st.toInt (A (bcIdx sa I))) (st.toInt (B (bcIdx sb I))))

/-- `mixed_multiply`: integer array times bit array, elementwise with broadcasting. -/
def mixedMultiply (st : ST) (A : Tensor) (sa : List Nat) (B : Tensor) (sb : List Nat) : Tensor :=
  fun I => st.ofInt (st.toInt (A (bcIdx sa I)) * ((B (bcIdx sb I) : Nat) : Int))

/-- `Vec::insert` on index lists -/
def insertAt (l : List Nat) (k v : Nat) : List Nat := l.take k ++ [v] ++ l.drop k

/-- inner product of two 1-d arrays of length `K` -/
def dot11 (st : ST) (A B : Tensor) (K : Nat) : Nat :=
  st.ofInt (sumTo K fun k => st.toInt (A [k]) * st.toInt (B [k]))

/-- `dot` docs: `dot(A, B)[i,j,k,m] = sum(A[i,j,:] * B[k,:,m])`; `r0` = rank of `A`, `r1` = rank of
    `B` (≥ 2), `K` = the contracted dimension. -/
def dotNN (st : ST) (A : Tensor) (r0 : Nat) (B : Tensor) (r1 : Nat) (K : Nat) : Tensor :=
  fun I => st.ofInt (sumTo K fun k =>
    st.toInt (A (I.take (r0 - 1) ++ [k])) * st.toInt (B (insertAt (I.drop (r0 - 1)) (r1 - 2) k)))

/-- N-d · 1-d: sum product over the last axis of `A`. -/
def dotN1 (st : ST) (A B : Tensor) (K : Nat) : Tensor :=
  fun I => st.ofInt (sumTo K fun k => st.toInt (A (I ++ [k])) * st.toInt (B [k]))

/-- NumPy `matmul` for operands of rank ≥ 2 (`sa`, `sb` their shapes): batch dimensions are
    broadcast, the last two are matrix-multiplied: `R[β,i,j] = Σ_k A[bc β,i,k] · B[bc β,k,j]`. -/
def matmul (st : ST) (A : Tensor) (sa : List Nat) (B : Tensor) (sb : List Nat) (K : Nat) : Tensor :=
  fun I =>
    let β := I.take (I.length - 2)
    let i := I.getD (I.length - 2) 0
    let j := I.getD (I.length - 1) 0
    st.ofInt (sumTo K fun k =>
      st.toInt (A (bcIdx (sa.take (sa.length - 2)) β ++ [i, k])) *
      st.toInt (B (bcIdx (sb.take (sb.length - 2)) β ++ [k, j])))

/-- reading the transpose of the last two axes -/
def transposeLast (T : Tensor) (flag : Bool) : Tensor :=
  fun I => if flag then
    T (I.take (I.length - 2) ++ [I.getD (I.length - 1) 0, I.getD (I.length - 2) 0]) else T I

/-- all multi-indices of a shape, row-major -/
def allIdx : List Nat → List (List Nat)
  | [] => [[]]
  | d :: ds => (List.range d).flatMap fun x => (allIdx ds).map (x :: ·)

/-- `sum(axes)`: `R[J] = Σ { A[I] | I restricted to the kept axes = J }` -/
def sumAxes (st : ST) (A : Tensor) (shape kept : List Nat) : Tensor :=
  fun J => st.ofInt (((allIdx shape).filter fun I => kept.map (fun ax => I.getD ax 0) = J).map
    (fun I => st.toInt (A I))).sum

/-- `sum` over all axes -/
def sumAll (st : ST) (xs : List Nat) : Nat := st.ofInt ((xs.map st.toInt).sum)

/-- `cum_sum(axis)` (numpy.cumsum): `R[I] = Σ_{k ≤ I[axis]} A[I with axis := k]` -/
def cumSum (st : ST) (A : Tensor) (axis : Nat) : Tensor :=
  fun I => st.ofInt (sumTo (I.getD axis 0 + 1) fun k => st.toInt (A (I.set axis k)))

/-- `get(index)`: `R[J] = A[index ++ J]` -/
def get (A : Tensor) (sub : List Nat) : Tensor := fun J => A (sub ++ J)

/-- `permute_axes(perm)` (numpy.transpose): `R[J] = A[I]` whenever `J_k = I_{perm k}`. -/
def permuteRel (A R : Tensor) (shape perm : List Nat) : Prop :=
  ∀ I, validIdx I shape → R (perm.map fun j => I.getD j 0) = A I

/-! #### Python / NumPy basic slicing of one axis (`slice(b, e, s).indices(dim)`) -/

/-- normalised start -/
def pyStart (dim : Nat) (b : Option Int) (s : Int) : Int :=
  match b with
  | none => if 0 < s then 0 else (dim : Int) - 1
  | some b =>
    if b < 0 then max (b + dim) (if 0 < s then 0 else -1)
    else min b (if 0 < s then (dim : Int) else (dim : Int) - 1)

/-- normalised stop -/
def pyStop (dim : Nat) (e : Option Int) (s : Int) : Int :=
  match e with
  | none => if 0 < s then (dim : Int) else -1
  | some e =>
    if e < 0 then max (e + dim) (if 0 < s then 0 else -1)
    else min e (if 0 < s then (dim : Int) else (dim : Int) - 1)

/-- `x` is an element of `range(start, stop, step)` position `j`: `x = start + j·step` and it has
    not reached `stop`. -/
def inRange (start stop step : Int) (j : Nat) : Prop :=
  if 0 < step then start + step * j < stop else start + step * j > stop

/-! #### SegmentCumSum (documentation of `Graph::segment_cumsum`) -/

/-- the documented iteration `output[0] = v`, `output[i] = A[i-1] + B[i-1] * output[i-1]`
    in the integers, for one position of the row -/
def segIter (a : Nat → Int) (b : Nat → Nat) (v : Int) : Nat → Int
  | 0 => v
  | i + 1 => a i + (b i : Int) * segIter a b v i

/-- `segment_cumsum(A, B, v)`: row `i` of the result at row position `J`, modulo 2^w -/
def segmentCumSum (st : ST) (A : Tensor) (B : Nat → Nat) (V : Tensor) : Tensor
  | [] => 0
  | i :: J => st.ofInt (segIter (fun k => st.toInt (A (k :: J))) B (st.toInt (V J)) i)

/-- `Σ_{s ≤ k < i} a k` -/
def sumFrom (s i : Nat) (a : Nat → Int) : Int := (((List.range i).filter (s ≤ ·)).map a).sum

end CCV.Spec
