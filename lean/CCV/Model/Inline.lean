/-
  Model of the inliner's depth-optimised machinery (ciphercore-base/src/inline/):
  `data_structures.rs` (log_depth_sum, prefix_sums_binary_ascent, prefix_sums_sqrt_trick,
  prefix_sums_segment_tree), `inline_common.rs` (pick_prefix_sum_algorithm) and, at the semantic
  level, the Iterate strategies of `simple_iterate_inliner.rs`, `empty_state_iterate_inliner.rs`,
  `associative_iterate_inliner.rs`, `exponential_inliner.rs` and the reference loop of
  `evaluators.rs::evaluate_call_iterate`.

  Everything is generic in the element type `α` and in the combine function `f : α → α → α`
  (`CombineOp::combine`).  Every prefix/sum function returns a pair: the result and the *trace* of
  combine calls `(arg1, arg2)` in the order in which the Rust code issues them (in the inliner one
  call = one inlined copy of the body, so the trace is the shape of the produced graph).
  The untraced functions used in the theorems are the first projections of the very same
  definitions.  Import-free (linked into the native driver).
-/
namespace CCV.Inline

abbrev Trace (α : Type) := List (α × α)

/-! ### log_depth_sum -/

/-- One round of `log_depth_sum` / one layer of the segment tree:
    `for i in (0..len).step_by(2)`: combine `items[i], items[i+1]`, or copy `items[i]` if it is the
    odd one out at the end. -/
def pairUp (f : α → α → α) : List α → List α × Trace α
  | a :: b :: rest =>
    let r := pairUp f rest
    (f a b :: r.1, (a, b) :: r.2)
  | [a] => ([a], [])
  | [] => ([], [])

/-- `while combined_items.len() > 1 { combined_items = one round }` (fuel = number of rounds that
    are certainly enough: the length). -/
def ldLoop (f : α → α → α) : Nat → List α → List α × Trace α
  | 0, c => (c, [])
  | fuel + 1, c =>
    if 1 < c.length then
      let s := pairUp f c
      let r := ldLoop f fuel s.1
      (r.1, s.2 ++ r.2)
    else (c, [])

/-- `log_depth_sum(items, combine_op)`: `none` = `Err("Cannot combine empty vector")`. -/
def logDepthSumT (f : α → α → α) (items : List α) : Option α × Trace α :=
  if items.isEmpty then (none, [])
  else
    let r := ldLoop f items.length items
    (r.1.head?, r.2)

def logDepthSum (f : α → α → α) (items : List α) : Option α := (logDepthSumT f items).1

/-! ### prefix_sums_binary_ascent -/

/-- One pass `for i in (depth..len).rev() { c[i] = combine(c[i - depth], c[i]) }`.
    The loop runs from high to low indices, so `c[i - depth]` is always still the value from before
    the pass: the pass is a simultaneous update; the calls are issued for `i = len-1, …, depth`. -/
def baStep (f : α → α → α) (depth : Nat) (c : List α) : List α × Trace α :=
  (c.take depth ++ List.zipWith f c (c.drop depth), (List.zip c (c.drop depth)).reverse)

/-- `while depth < len { pass; depth *= 2 }`. -/
def baLoop (f : α → α → α) : Nat → Nat → List α → List α × Trace α
  | 0, _, c => (c, [])
  | fuel + 1, depth, c =>
    if depth < c.length then
      let s := baStep f depth c
      let r := baLoop f fuel (2 * depth) s.1
      (r.1, s.2 ++ r.2)
    else (c, [])

/-- `prefix_sums_binary_ascent(items, combine_op)`; empty input ↦ `Ok(vec![])`. -/
def prefixBinaryAscentT (f : α → α → α) (items : List α) : List α × Trace α :=
  baLoop f items.length 1 items

def prefixBinaryAscent (f : α → α → α) (items : List α) : List α := (prefixBinaryAscentT f items).1

/-! ### prefix_sums_sqrt_trick -/

/-- First loop: `for i in 0..len { if i % block != 0 { c[i] = combine(c[i-1], c[i]) } }`.
    `prev` is `c[i-1]` (already updated); it is not looked at for `i = 0`. -/
def sqrtPass1 (f : α → α → α) (block : Nat) : Nat → α → List α → List α × Trace α
  | _, _, [] => ([], [])
  | i, prev, x :: xs =>
    if i % block ≠ 0 then
      let y := f prev x
      let r := sqrtPass1 f block (i + 1) y xs
      (y :: r.1, (prev, x) :: r.2)
    else
      let r := sqrtPass1 f block (i + 1) x xs
      (x :: r.1, r.2)

/-- Second loop: `for i in block..len { c[i] = combine(c[i - i % block - 1], c[i]) }`.
    `prev` is `c[i-1]` (already final), `carry` is `c[i - i % block - 1]`, the final value at the
    end of the previous block: it is `c[i-1]` when `i % block == 0` and does not change inside a
    block.  Indices below `block` are outside the loop range and are kept. -/
def sqrtPass2 (f : α → α → α) (block : Nat) : Nat → α → α → List α → List α × Trace α
  | _, _, _, [] => ([], [])
  | i, carry, prev, y :: ys =>
    if i < block then
      let r := sqrtPass2 f block (i + 1) carry y ys
      (y :: r.1, r.2)
    else
      let carry' := if i % block = 0 then prev else carry
      let z := f carry' y
      let r := sqrtPass2 f block (i + 1) carry' z ys
      (z :: r.1, (carry', y) :: r.2)

/-- the sqrt trick with an explicit block size -/
def prefixSqrtBT (f : α → α → α) (block : Nat) : List α → List α × Trace α
  | [] => ([], [])
  | x :: xs =>
    let p1 := sqrtPass1 f block 0 x (x :: xs)
    let p2 := sqrtPass2 f block 0 x x p1.1
    (p2.1, p1.2 ++ p2.2)

/-- largest `r ≤ bound` with `r * r ≤ n` (0 if none) -/
def isqrtAux (n : Nat) : Nat → Nat
  | 0 => 0
  | r + 1 => if (r + 1) * (r + 1) ≤ n then r + 1 else isqrtAux n r

/-- floor of the square root -/
def isqrt (n : Nat) : Nat := isqrtAux n n

/-- `block_size = max(1, (len as f64).sqrt() as usize)` — the floor of the square root (exact for
    every length below 2^52). -/
def sqrtBlock (len : Nat) : Nat := max 1 (isqrt len)

/-- `prefix_sums_sqrt_trick(items, combine_op)`; empty input ↦ `Ok(vec![])`. -/
def prefixSqrtT (f : α → α → α) (items : List α) : List α × Trace α :=
  prefixSqrtBT f (sqrtBlock items.length) items

def prefixSqrt (f : α → α → α) (items : List α) : List α := (prefixSqrtT f items).1

/-! ### prefix_sums_segment_tree -/

/-- `layers`: `while layers[layer].len() > 1 { push(pair up layers[layer]) }`; returns the layers
    bottom-up (`layers[0] = items`) and the trace. -/
def stBuild (f : α → α → α) : Nat → List α → List (List α) × Trace α
  | 0, c => ([c], [])
  | fuel + 1, c =>
    if 1 < c.length then
      let s := pairUp f c
      let r := stBuild f fuel s.1
      (c :: r.1, s.2 ++ r.2)
    else ([c], [])

/-- positions `j ≥ 2` of one layer in the top-down phase; `p = up[(j-1)/2]` for the even `j` at the
    head of the list: `j` even ↦ `combine(up[(j-1)/2], layer[j])`, `j` odd ↦ `up[j/2]`. -/
def stDownRest (f : α → α → α) : α → List α → List α → List α × Trace α
  | p, e :: _ :: rest, p' :: ups =>
    let r := stDownRest f p' rest ups
    (f p e :: p' :: r.1, (p, e) :: r.2)
  | p, e :: _, _ => ([f p e], [(p, e)])
  | _, [], _ => ([], [])

/-- `for j in 1..layers[i].len()` of the top-down phase, given the finished layer above (`up`). -/
def stDown (f : α → α → α) : List α → List α → List α × Trace α
  | e0 :: _ :: rest, p0 :: ups =>
    let r := stDownRest f p0 rest ups
    (e0 :: p0 :: r.1, r.2)
  | l, _ => (l, [])

/-- `for i in (0..layers.len() - 1).rev()`: returns the finished `layers[0]`. -/
def stDescend (f : α → α → α) : List (List α) → List α × Trace α
  | [] => ([], [])
  | [top] => (top, [])
  | l :: rest =>
    let u := stDescend f rest
    let d := stDown f l u.1
    (d.1, u.2 ++ d.2)

/-- `prefix_sums_segment_tree(items, combine_op)`; empty input ↦ `Ok(vec![])`. -/
def prefixSegmentTreeT (f : α → α → α) (items : List α) : List α × Trace α :=
  if items.isEmpty then ([], [])
  else
    let b := stBuild f items.length items
    let d := stDescend f b.1
    (d.1, b.2 ++ d.2)

def prefixSegmentTree (f : α → α → α) (items : List α) : List α := (prefixSegmentTreeT f items).1

/-! ### pick_prefix_sum_algorithm -/

inductive Level | default | extreme
  deriving DecidableEq, Repr

/-- `pick_prefix_sum_algorithm(inputs_len, level)(items, op)`.  NB: the inliners pass the length of
    the *Iterate input vector* as `inputs_len`, which is not always `items.len()`. -/
def pickT (level : Level) (inputsLen : Nat) (f : α → α → α) (items : List α) : List α × Trace α :=
  match level with
  | .extreme => prefixBinaryAscentT f items
  | .default => if inputsLen < 16 then prefixSqrtT f items else prefixSegmentTreeT f items

def pick (level : Level) (inputsLen : Nat) (f : α → α → α) (items : List α) : List α :=
  (pickT level inputsLen f items).1

/-! ### Iterate: reference semantics and inlining strategies (semantic level)

  A body graph is a function `g : S → I → S × O`. -/

/-- `Evaluator::evaluate_call_iterate`, `Operation::Iterate`: thread the state left to right,
    collect the outputs. -/
def iterRef (g : S → I → S × O) : S → List I → S × List O
  | s, [] => (s, [])
  | s, x :: xs =>
    let r := g s x
    let rest := iterRef g r.1 xs
    (rest.1, r.2 :: rest.2)

/-- `inline_iterate_simple`: `for i in 0..len { result = body(state, input[i]); state = result.0;
    outputs.push(result.1) }` with the outputs accumulated in order. -/
def iterSimpleLoop (g : S → I → S × O) : S → List O → List I → S × List O
  | s, outs, [] => (s, outs)
  | s, outs, x :: xs =>
    let r := g s x
    iterSimpleLoop g r.1 (outs ++ [r.2]) xs

def iterSimple (g : S → I → S × O) (s : S) (xs : List I) : S × List O := iterSimpleLoop g s [] xs

/-- `inline_iterate_empty_state`: every copy of the body gets the initial state; the final state is
    the initial state. -/
def iterEmptyState (g : S → I → S × O) (s : S) (xs : List I) : S × List O :=
  (s, xs.map (fun x => (g s x).2))

/-- `inline_iterate_associative` (state type = input type).  `emptyOut` = the output element type is
    the empty tuple, `unit` = that empty tuple.  `inputs = [initial_state] ++ inputs_node[..]`;
    the combine operation is `body(·,·).0`; the prefix algorithm is picked by the length of the
    input vector (not of `inputs`). -/
def iterAssoc (level : Level) (emptyOut : Bool) (unit : O) (g : α → α → α × O) (s : α) (xs : List α) :
    α × List O :=
  if xs.isEmpty then (s, [])
  else
    let f := fun a b => (g a b).1
    let inputs := s :: xs
    if emptyOut then
      ((logDepthSum f inputs).getD s, xs.map (fun _ => unit))
    else
      let ps := pick level xs.length f inputs
      (ps.getLast?.getD s, List.zipWith (fun p x => (g p x).2) ps xs)

/-- 1-bit transition table `(image of 0, image of 1)` — `create_mapping_matrix`, single-bit case -/
abbrev Map1 := Bool × Bool

/-- `MappingCombiner1Bit::combine(arg1, arg2)`: `out_k = bit1k * (bit20 + bit21) + bit20` over GF(2) -/
def comb1 (m1 m2 : Map1) : Map1 :=
  let distinct := xor m2.1 m2.2
  (xor (m1.1 && distinct) m2.1, xor (m1.2 && distinct) m2.1)

/-- `extract_state_from_mapping`, single-bit case: `out0 * (s + 1) + out1 * s` over GF(2) -/
def extract1 (s : Bool) (m : Map1) : Bool := xor (m.1 && xor s true) (m.2 && s)

/-- `inline_iterate_small_state(single_bit = true, …)` for one (unbatched) state bit. -/
def iterOneBit (level : Level) (emptyOut : Bool) (unit : O) (g : Bool → I → Bool × O) (s : Bool)
    (xs : List I) : Bool × List O :=
  if xs.isEmpty then (s, [])
  else
    let mappings : List Map1 := xs.map (fun x => ((g false x).1, (g true x).1))
    if emptyOut then
      (extract1 s ((logDepthSum comb1 mappings).getD (false, true)), xs.map (fun _ => unit))
    else
      let ps := pick level xs.length comb1 mappings
      -- state before step i: the initial state for i = 0, else extracted from prefix_sums[i-1]
      let states := s :: ps.map (extract1 s)
      (extract1 s (ps.getLast?.getD (false, true)), List.zipWith (fun st x => (g st x).2) states xs)

/-! #### small state: `N = 2^K` states, transition matrices over GF(2) -/

/-- GF(2) sum of `g 0 … g (n-1)` -/
def xsum : (n : Nat) → (Nat → Bool) → Bool
  | 0, _ => false
  | n + 1, g => xor (xsum n g) (g n)

/-- an `N×N` matrix over GF(2), entries outside `N×N` are never looked at -/
abbrev Mat := Nat → Nat → Bool

/-- `MappingCombiner::combine = arg1.matmul(arg2)` on BIT arrays -/
def matMul (N : Nat) (a b : Mat) : Mat := fun i j => xsum N (fun k => a i k && b k j)

/-- `create_mapping_matrix` / `one_hot_encode`: `M[s1][s2] = (G(s1) == s2)` -/
def matOfFun (p : Nat → Nat) : Mat := fun i j => p i == j

/-- `one_hot_encode(initial_state)` as a row vector -/
def oneHot (s : Nat) : Nat → Bool := fun j => s == j

/-- `initial_state_one_hot.matmul(mapping)` -/
def vecMul (N : Nat) (v : Nat → Bool) (m : Mat) : Nat → Bool := fun j => xsum N (fun k => v k && m k j)

/-- `output_state_one_hot.matmul(masks_arr)`: bit `b` of the decoded state = GF(2) sum over the
    states `j` of `v[j] * bit_b(j)` -/
def decodeBit (N : Nat) (v : Nat → Bool) (b : Nat) : Bool := xsum N (fun j => v j && j.testBit b)

/-- the `K`-bit state whose bit `b` is `bit b` (little endian, as `mask_to_value`: bit `b` of the mask
    sits at index `b` of the last dimension) -/
def natOfBits : Nat → (Nat → Bool) → Nat
  | 0, _ => 0
  | K + 1, bit => (bit 0).toNat + 2 * natOfBits K (fun b => bit (b + 1))

/-- `extract_state_from_mapping`, general case: `reshape(one_hot(initial) · mapping · masks)` -/
def extractS (K : Nat) (s : Nat) (m : Mat) : Nat :=
  natOfBits K (decodeBit (2 ^ K) (vecMul (2 ^ K) (oneHot s) m))

/-- `inline_iterate_small_state(single_bit = false, …)` for one (unbatched) `K`-bit state, states
    numbered by their mask.  Under the contract the rows of a batched state are independent
    instances of this. -/
def iterSmall (level : Level) (K : Nat) (emptyOut : Bool) (unit : O) (g : Nat → I → Nat × O) (s : Nat)
    (xs : List I) : Nat × List O :=
  if xs.isEmpty then (s, [])
  else
    let N := 2 ^ K
    let mappings : List Mat := xs.map (fun x => matOfFun (fun st => (g st x).1))
    if emptyOut then
      (extractS K s ((logDepthSum (matMul N) mappings).getD (matOfFun id)), xs.map (fun _ => unit))
    else
      let ps := pick level xs.length (matMul N) mappings
      let states := s :: ps.map (extractS K s)
      (extractS K s (ps.getLast?.getD (matOfFun id)), List.zipWith (fun st x => (g st x).2) states xs)

end CCV.Inline
