/-
  Graph-structure-level model of the inliner's copying machinery
  (ciphercore-base/src/inline/inline_ops.rs, simple_iterate_inliner.rs,
  empty_state_iterate_inliner.rs): which nodes `inline_operations` creates in the output graph
  and how they are wired, for bodies whose nodes are Input / Random / ordinary operations.

  A graph is the list of its nodes (id = position, as `Graph::get_nodes`); a node is an operation
  tag and the ids of its node dependencies.  The two `ContextMappings` of `InliningContext` are
  association lists keyed by (graph id, node id) of the *source* context; values are node ids of the
  output graph.  Panics of the Rust code (`get_node` on a missing key, `insert_node` on a present
  key, `remove_node` on a missing key) are not modelled: lookups default to 0, insertion shadows.
  The theorems (Proofs/C07Fresh.lean) show that for well-formed bodies every lookup is a hit.

  Copies made by the strategies that are NOT executed here (see Model/Inline.lean for their
  semantics; one combine call = one assign/inline/unassign cycle = one full copy of the body,
  with every Random node of the body copied again):
  * `inline_iterate_associative`: one copy per `CombineOp::combine` call of `log_depth_sum`
    (empty output: n copies for n+1 items) or of the picked prefix-sum algorithm (trace of
    `pickT`), plus n more copies (one per output, inputs `prefix_sums[i], inputs[i+1]`);
  * `inline_iterate_small_state` (`create_mappings`): per step one copy per possible state value
    (2^K copies, state input = a constant) and after the prefix sums one copy per output
    (n copies, state input = the selected state).
  Import-free (linked into the native driver).
-/
namespace CCV.InlineFresh

/-- operation of a node, as far as the inliner's structure is concerned -/
inductive Tag
  | input
  | random
  | op (k : Nat)          -- ordinary operation (0 Add, 1 Subtract, 2 Multiply, …)
  | const (v : Nat)       -- `constant_scalar(g, v, UINT64)`
  | vectorGet
  | tupleGet (i : Nat)
  | createTuple
  | createVector
  | call                  -- Call of the body graph
  | iterate (n : Nat)     -- Iterate of the body graph over a vector of length n
  deriving DecidableEq, Repr

structure Node where
  tag : Tag
  deps : List Nat
  deriving DecidableEq, Repr

abbrev Graph := List Node

/-- key of a source node: (graph id, node id) -/
abbrev Key := Nat × Nat

/-- `ContextMappings::node_mapping` -/
abbrev Mapping := List (Key × Nat)

/-- `ContextMappings::contains_node` -/
def mContains (m : Mapping) (k : Key) : Bool := (m.lookup k).isSome
/-- `ContextMappings::get_node` (panics when missing; here 0) -/
def mGet (m : Mapping) (k : Key) : Nat := (m.lookup k).getD 0
/-- `ContextMappings::insert_node` (asserts the key is new; here the new entry shadows) -/
def mInsert (m : Mapping) (k : Key) (v : Nat) : Mapping := (k, v) :: m
/-- `ContextMappings::remove_node` -/
def mRemove (m : Mapping) (k : Key) : Mapping := m.filter (fun e => !(e.1 == k))

/-- `InliningContext`: `context_mapping` and `ephemeral_context_mapping` -/
structure ICtx where
  cm : Mapping
  eph : Mapping
  deriving Repr

/-- `InliningContext::get_node`: the ephemeral mapping wins -/
def ICtx.getNode (c : ICtx) (k : Key) : Nat :=
  if mContains c.eph k then mGet c.eph k else mGet c.cm k

/-- `InliningContext::insert_node`: into the ephemeral mapping iff `context_mapping` already has
    the node (i.e. from the second copy of a graph on) -/
def ICtx.insertNode (c : ICtx) (k : Key) (v : Nat) : ICtx :=
  if mContains c.cm k then { c with eph := mInsert c.eph k v }
  else { c with cm := mInsert c.cm k v }

/-- state of the inliner: output graph under construction and the inlining context -/
abbrev St := Graph × ICtx

/-- ids of the Input nodes of a graph in node order (first loop of `assign_input_nodes`) -/
def inputIdsFrom : List Node → Nat → List Nat
  | [], _ => []
  | nd :: rest, i =>
    if nd.tag = .input then i :: inputIdsFrom rest (i + 1) else inputIdsFrom rest (i + 1)

/-- second loop of `assign_input_nodes`: `for (input_node, node) in zip { ephemeral.insert }` -/
def assignLoop (gid : Nat) : List Nat → List Nat → ICtx → ICtx
  | i :: is, v :: vs, c => assignLoop gid is vs { c with eph := mInsert c.eph (gid, i) v }
  | _, _, c => c

/-- `assign_input_nodes(graph, nodes, ctx)` (the length-mismatch `Err` is not modelled) -/
def assignInputNodes (gid : Nat) (g : Graph) (nodes : List Nat) (c : ICtx) : ICtx :=
  assignLoop gid (inputIdsFrom g 0) nodes c

/-- `unassign_nodes(graph, ctx)`: every node of the graph that is in the ephemeral mapping is
    removed from it -/
def unassignLoop (gid : Nat) : List Node → Nat → ICtx → ICtx
  | [], _, c => c
  | _ :: rest, i, c =>
    unassignLoop gid rest (i + 1)
      (if mContains c.eph (gid, i) then { c with eph := mRemove c.eph (gid, i) } else c)

def unassignNodes (gid : Nat) (g : Graph) (c : ICtx) : ICtx := unassignLoop gid g 0 c

/-- loop of `recursively_inline_graph` over the nodes of a flat body (every node has mode Noop):
    a node already in the ephemeral mapping (an assigned input) is skipped; otherwise the
    dependencies are remapped with `get_node`, `add_node_with_type` appends the node to the output
    graph and `insert_node` records it. -/
def inlineNodes (gid : Nat) : List Node → Nat → St → St
  | [], _, s => s
  | nd :: rest, i, (out, c) =>
    if mContains c.eph (gid, i) then inlineNodes gid rest (i + 1) (out, c)
    else
      let newDeps := nd.deps.map (fun d => c.getNode (gid, d))
      let newId := out.length
      inlineNodes gid rest (i + 1) (out ++ [⟨nd.tag, newDeps⟩], c.insertNode (gid, i) newId)

/-- `recursively_inline_graph(graph, output_graph, ctx, _)` for a flat body: returns the image of
    the body's output node -/
def recursivelyInlineGraph (gid : Nat) (g : Graph) (outId : Nat) (s : St) : St × Nat :=
  let s' := inlineNodes gid g 0 s
  (s', s'.2.getNode (gid, outId))

/-- one assign / inline / unassign cycle: the body of `inline_call` (modes Simple and
    DepthOptimized), of one step of the Iterate inliners and of `StateCombiner::combine` -/
def inlineCall (gid : Nat) (g : Graph) (outId : Nat) (deps : List Nat) (s : St) : St × Nat :=
  let c1 := assignInputNodes gid g deps s.2
  let r := recursivelyInlineGraph gid g outId (s.1, c1)
  ((r.1.1, unassignNodes gid g r.1.2), r.2)

/-- `Graph::add_node`: append, the id is the position -/
def addNode (out : Graph) (nd : Node) : Graph × Nat := (out ++ [nd], out.length)

/-- loop of `inline_iterate_simple` (`fuel` = remaining steps, `i` = step index): per step a
    Constant(i) node, a VectorGet node, assign `[state, current_input]`, inline the body, unassign,
    TupleGet(0) (next state), TupleGet(1) (output). -/
def iterSimpleLoop (gid : Nat) (g : Graph) (outId : Nat) (inputsNode : Nat) :
    Nat → Nat → Nat → List Nat → St → St × Nat × List Nat
  | 0, _, state, outs, s => (s, state, outs)
  | fuel + 1, i, state, outs, (out, c) =>
    let k := addNode out ⟨.const i, []⟩
    let cur := addNode k.1 ⟨.vectorGet, [inputsNode, k.2]⟩
    let r := inlineCall gid g outId [state, cur.2] (cur.1, c)
    let st := addNode r.1.1 ⟨.tupleGet 0, [r.2]⟩
    let o := addNode st.1 ⟨.tupleGet 1, [r.2]⟩
    iterSimpleLoop gid g outId inputsNode fuel (i + 1) st.2 (outs ++ [o.2]) (o.1, r.1.2)

/-- `inline_iterate_simple(graph, initial_state, inputs_node, inliner)` for a vector of length n -/
def inlineIterateSimple (gid : Nat) (g : Graph) (outId : Nat) (initialState inputsNode n : Nat)
    (s : St) : St × Nat × List Nat :=
  iterSimpleLoop gid g outId inputsNode n 0 initialState [] s

/-- loop of `inline_iterate_empty_state`: as above, but every copy gets the initial state and only
    TupleGet(1) is created -/
def iterEmptyLoop (gid : Nat) (g : Graph) (outId : Nat) (initialState inputsNode : Nat) :
    Nat → Nat → List Nat → St → St × List Nat
  | 0, _, outs, s => (s, outs)
  | fuel + 1, i, outs, (out, c) =>
    let k := addNode out ⟨.const i, []⟩
    let cur := addNode k.1 ⟨.vectorGet, [inputsNode, k.2]⟩
    let r := inlineCall gid g outId [initialState, cur.2] (cur.1, c)
    let o := addNode r.1.1 ⟨.tupleGet 1, [r.2]⟩
    iterEmptyLoop gid g outId initialState inputsNode fuel (i + 1) (outs ++ [o.2]) (o.1, r.1.2)

/-- `inline_iterate_empty_state` -/
def inlineIterateEmptyState (gid : Nat) (g : Graph) (outId : Nat) (initialState inputsNode n : Nat)
    (s : St) : St × Nat × List Nat :=
  let r := iterEmptyLoop gid g outId initialState inputsNode n 0 [] s
  (r.1, initialState, r.2)

/-- inlining mode of Call/Iterate nodes (Noop keeps the node and is not modelled here) -/
inductive Mode
  | simple
  | depth
  deriving DecidableEq, Repr

/-- `inline_iterate` for a body without graph annotation: `dependencies[0]` is the state,
    `dependencies[1]` the inputs; Simple → simple inliner; DepthOptimized → empty-state inliner if
    the state type is the empty tuple, else (no annotation) the simple inliner; finally
    `create_vector(outputs)` and `create_tuple([final_state, final_result])`. -/
def inlineIterate (mode : Mode) (emptyState : Bool) (gid : Nat) (g : Graph) (outId : Nat)
    (deps : List Nat) (n : Nat) (s : St) : St × Nat :=
  let initialState := deps.headD 0
  let inputsNode := deps.tail.headD 0
  let r :=
    match mode with
    | .simple => inlineIterateSimple gid g outId initialState inputsNode n s
    | .depth =>
      if emptyState then inlineIterateEmptyState gid g outId initialState inputsNode n s
      else inlineIterateSimple gid g outId initialState inputsNode n s
  let v := addNode r.1.1 ⟨.createVector, r.2.2⟩
  let t := addNode v.1 ⟨.createTuple, [r.2.1, v.2]⟩
  ((t.1, r.1.2), t.2)

/-- loop of `recursively_inline_graph` over the nodes of the main graph (graph id 0; the body has
    graph id 1): ordinary nodes are re-created with remapped dependencies (Noop branch), a Call
    node is replaced by `inline_call`, an Iterate node by `inline_iterate`; the result node is
    recorded with `insert_node`. -/
def inlineMainNodes (mode : Mode) (emptyState : Bool) (body : Graph) (bodyOut : Nat) :
    List Node → Nat → St → St
  | [], _, s => s
  | nd :: rest, i, (out, c) =>
    if mContains c.eph (0, i) then inlineMainNodes mode emptyState body bodyOut rest (i + 1) (out, c)
    else
      let newDeps := nd.deps.map (fun d => c.getNode (0, d))
      match nd.tag with
      | .call =>
        let r := inlineCall 1 body bodyOut newDeps (out, c)
        inlineMainNodes mode emptyState body bodyOut rest (i + 1)
          (r.1.1, r.1.2.insertNode (0, i) r.2)
      | .iterate n =>
        let r := inlineIterate mode emptyState 1 body bodyOut newDeps n (out, c)
        inlineMainNodes mode emptyState body bodyOut rest (i + 1)
          (r.1.1, r.1.2.insertNode (0, i) r.2)
      | t =>
        inlineMainNodes mode emptyState body bodyOut rest (i + 1)
          (out ++ [⟨t, newDeps⟩], c.insertNode (0, i) out.length)

/-- `inline_operations` on a context {body, main} where every Call/Iterate of the main graph is
    inlined: the new main graph and its output node -/
def inlineOperations (mode : Mode) (emptyState : Bool) (main : Graph) (mainOut : Nat)
    (body : Graph) (bodyOut : Nat) : Graph × Nat :=
  let s := inlineMainNodes mode emptyState body bodyOut main 0 ([], ⟨[], []⟩)
  (s.1, s.2.getNode (0, mainOut))

/-! ### specification of one copy (used by the theorems; the driver executes the functions above) -/

/-- number of non-Input nodes -/
def rank (l : List Node) : Nat := (l.filter (fun nd => nd.tag ≠ .input)).length

/-- number of Input nodes -/
def inCount (l : List Node) : Nat := (l.filter (fun nd => nd.tag = .input)).length

/-- number of Random nodes -/
def randomCount (l : List Node) : Nat := (l.filter (fun nd => nd.tag = .random)).length

/-- the renaming of one copy: an Input node goes to the node assigned to it, the r-th non-Input
    node to `base + r` -/
def rename (g : Graph) (base : Nat) (vals : List Nat) (k : Nat) : Nat :=
  match g[k]? with
  | some nd =>
    if nd.tag = .input then (vals[inCount (g.take k)]?).getD 0 else base + rank (g.take k)
  | none => 0

/-- the nodes one copy appends: the non-Input nodes in order, dependencies renamed -/
def copySpec (ρ : Nat → Nat) (l : List Node) : Graph :=
  (l.filter (fun nd => nd.tag ≠ .input)).map (fun nd => ⟨nd.tag, nd.deps.map ρ⟩)

end CCV.InlineFresh
