/-
  Model of the graph-building API of `ciphercore-base/src/graphs.rs` (C11).

  One `State` stands for one `ContextBody` (graphs.rs:3691) together with the `GraphBody`s
  (graphs.rs:1380) and `NodeBody`s (graphs.rs:344) it owns.  Rust `HashMap`s are association
  lists (`tget`/`tinsert`/`tremove`), handles (`Node`, `Graph`: `Arc` pointers) are references
  `NRef`/`GRef` = (context tag, graph id, node id); context tag 0 is *this* context, any other
  tag is a handle into another context (all the code ever does with such a handle is to
  reject it).  A reference with tag 0 that does not resolve cannot be produced through the Rust
  API (a handle is only ever returned for an existing object); the model rejects it.

  `nodes_names_inverse : HashMap<u64, HashMap<String, u64>>` is flattened to a table keyed by
  (graph id, name); the only thing lost is the empty inner map that `set_node_name` may create,
  which no getter can see.  Names are numbers (the harness draws names from a pool `n<k>`).

  Type inference is NOT modelled: its verdict (and the individual-size verdict) comes in as the
  field `tv` of the call, the size estimate of an Input/Constant type as the field `sz`
  (supplied by the harness, which computes both independently of the call it replays).
  The type cache of `TypeInferenceWorker` is the flag `typed` of a stored node.

  Import-free (linked into the model driver).
-/
namespace CCV.Context

/-! ### association lists standing for `HashMap` -/

/-- `HashMap::get` -/
def tget [DecidableEq K] : List (K × V) → K → Option V
  | [], _ => none
  | (k', v) :: t, k => if k' = k then some v else tget t k

/-- `HashMap::remove` -/
def tremove [DecidableEq K] : List (K × V) → K → List (K × V)
  | [], _ => []
  | (k', v) :: t, k => if k' = k then tremove t k else (k', v) :: tremove t k

/-- `HashMap::insert` (replaces an existing entry) -/
def tinsert [DecidableEq K] (t : List (K × V)) (k : K) (v : V) : List (K × V) :=
  (k, v) :: tremove t k

/-- `if let Some(vec) = map.get_mut(&k) { vec.push(a) } else { map.insert(k, vec![a]) }`
    (graphs.rs:4577-4582, 4613-4618) -/
def tpush [DecidableEq K] (t : List (K × List Nat)) (k : K) (a : Nat) : List (K × List Nat) :=
  match tget t k with
  | some vec => tinsert t k (vec ++ [a])
  | none => tinsert t k [a]

/-! ### state -/

/-- `NodeBody` (graphs.rs:344); `typed` = the node has an entry in the type cache -/
structure Node where
  id : Nat
  op : Nat
  deps : List (Nat × Nat)   -- (graph id, node id) of each `node_dependencies` pointer
  gdeps : List Nat          -- graph id of each `graph_dependencies` pointer
  typed : Bool
  deriving DecidableEq, Repr

/-- `GraphBody` (graphs.rs:1380) -/
structure Graph where
  id : Nat
  finalized : Bool
  nodes : List Node
  output : Option Nat
  deriving DecidableEq, Repr

/-- `ContextBody` (graphs.rs:3691) -/
structure State where
  finalized : Bool
  graphs : List Graph
  main : Option Nat
  gnames : List (Nat × Nat)            -- graph id → name
  gnamesInv : List (Nat × Nat)         -- name → graph id
  nnames : List ((Nat × Nat) × Nat)    -- (graph id, node id) → name
  nnamesInv : List ((Nat × Nat) × Nat) -- (graph id, name) → node id
  nannot : List ((Nat × Nat) × List Nat)
  gannot : List (Nat × List Nat)
  total : Nat                          -- total_size_nodes
  deriving DecidableEq, Repr

/-- `create_context` (graphs.rs:4709) -/
def init : State :=
  { finalized := false, graphs := [], main := none, gnames := [], gnamesInv := [],
    nnames := [], nnamesInv := [], nannot := [], gannot := [], total := 0 }

/-- `type_size_limit_constants::MAX_TOTAL_SIZE_NODES` = `u64::MAX - 1` (constants.rs:10) -/
def maxTotal : Nat := 2 ^ 64 - 2

/-- handle of a node -/
structure NRef where
  ctx : Nat
  g : Nat
  n : Nat
  deriving DecidableEq, Repr

/-- handle of a graph -/
structure GRef where
  ctx : Nat
  g : Nat
  deriving DecidableEq, Repr

inductive Result where
  | ok (payload : List Nat)
  | err
  deriving DecidableEq, Repr

inductive Call where
  | createGraph
  | addNode (g : Nat) (op : Nat) (deps : List NRef) (gdeps : List GRef) (tv : Bool) (sz : Option Nat)
  | addNodeWithType (g : Nat) (op : Nat) (deps : List NRef) (gdeps : List GRef) (tyOk : Bool) (sz : Option Nat)
  | setGraphName (g : GRef) (name : Nat)
  | setNodeName (n : NRef) (name : Nat)
  | addNodeAnnotation (n : NRef) (a : Nat)
  | addGraphAnnotation (g : GRef) (a : Nat)
  | setOutput (g : Nat) (n : NRef)
  | finalizeGraph (g : Nat)
  | setMain (g : GRef)
  | finalizeContext
  -- getters
  | getGraphName (g : GRef)
  | retrieveGraph (name : Nat)
  | getNodeName (n : NRef)
  | retrieveNode (g : GRef) (name : Nat)
  | getNodeById (g : Nat) (id : Nat)
  | getGraphById (id : Nat)
  | getOutput (g : Nat)
  | getMain
  | getNodeAnnotations (n : NRef)
  | getGraphAnnotations (g : GRef)
  deriving Repr

/-- does the node handle resolve in this state -/
def hasNode (s : State) (r : NRef) : Bool :=
  match s.graphs[r.g]? with
  | some gr => decide (r.n < gr.nodes.length)
  | none => false

def setGraph (s : State) (g : Nat) (gr : Graph) : State :=
  { s with graphs := s.graphs.set g gr }

/-! ### mutators -/

/-- `Context::create_graph` (graphs.rs:3978) -/
def createGraph (s : State) : State × Result :=
  if s.finalized then (s, .err)
  else
    let id := s.graphs.length
    ({ s with graphs := s.graphs ++ [{ id := id, finalized := false, nodes := [], output := none }] },
     .ok [id])

/-- `Context::unregister_node` + type-cache removal + `nodes.pop()`: `Graph::remove_last_node`
    (graphs.rs:3522, 4486).  When the context is finalized `unregister_node` fails and the `?`
    leaves the node in place. -/
def removeLastNode (s : State) (g : Nat) : State :=
  match s.graphs[g]? with
  | none => s
  | some gr =>
    if s.finalized then s
    else
      let nid := gr.nodes.length - 1
      let nameOpt := tget s.nnames (g, nid)
      let s1 : State :=
        { s with nnames := tremove s.nnames (g, nid), nannot := tremove s.nannot (g, nid) }
      let s2 : State :=
        match nameOpt with
        | some nm => { s1 with nnamesInv := tremove s1.nnamesInv (g, nm) }
        | none => s1
      setGraph s2 g { gr with nodes := gr.nodes.dropLast }

/-- dependency check of `add_node_internal` (graphs.rs:3428-3437) -/
def depOk (g : Nat) (id : Nat) (d : NRef) : Bool :=
  d.ctx = 0 && d.g = g && decide (d.n < id)

/-- graph-dependency check of `add_node_internal` (graphs.rs:3438-3456) -/
def gdepOk (s : State) (g : Nat) (d : GRef) : Bool :=
  d.ctx = 0 &&
  (match s.graphs[d.g]? with
   | some cg => cg.finalized && decide (d.g < g)
   | none => false)

/-- `Graph::add_node_internal` (graphs.rs:3415), as patched (a provided type that fails
    `register_result` is rolled back like a failed inference).  `tv`: the type verdict
    (inference or registration succeeded and the individual size check passed);
    `sz`: `Some(estimate)` when the operation is Input/Constant (`try_update_total_size`). -/
def addNodeInternal (s : State) (g : Nat) (op : Nat) (deps : List NRef) (gdeps : List GRef)
    (tv : Bool) (sz : Option Nat) : State × Result :=
  match s.graphs[g]? with
  | none => (s, .err)
  | some gr =>
    if gr.finalized then (s, .err)
    else
      let id := gr.nodes.length
      if !(deps.all (depOk g id)) then (s, .err)
      else if !(gdeps.all (gdepOk s g)) then (s, .err)
      else
        let nd : Node := { id := id, op := op, deps := deps.map (fun d => (d.g, d.n)),
                           gdeps := gdeps.map (·.g), typed := tv }
        let s1 := setGraph s g { gr with nodes := gr.nodes ++ [nd] }
        if !tv then (removeLastNode s1 g, .err)
        else
          match sz with
          | none => (s1, .ok [id])
          | some n =>
            if s1.total + n > maxTotal then (removeLastNode s1 g, .err)
            else ({ s1 with total := s1.total + n }, .ok [id])

/-- `Context::set_graph_name` (graphs.rs:4172) -/
def setGraphName (s : State) (r : GRef) (name : Nat) : State × Result :=
  if r.ctx ≠ 0 then (s, .err)
  else if s.finalized then (s, .err)
  else if (s.graphs[r.g]?).isNone then (s, .err)
  else if (tget s.gnames r.g).isSome then (s, .err)
  else if (tget s.gnamesInv name).isSome then (s, .err)
  else ({ s with gnames := tinsert s.gnames r.g name, gnamesInv := tinsert s.gnamesInv name r.g },
        .ok [])

/-- `Context::set_node_name` (graphs.rs:4283) -/
def setNodeName (s : State) (r : NRef) (name : Nat) : State × Result :=
  if r.ctx ≠ 0 then (s, .err)
  else if s.finalized then (s, .err)
  else if !(hasNode s r) then (s, .err)
  else if (tget s.nnames (r.g, r.n)).isSome then (s, .err)
  else if (tget s.nnamesInv (r.g, name)).isSome then (s, .err)
  else ({ s with nnamesInv := tinsert s.nnamesInv (r.g, name) r.n,
                 nnames := tinsert s.nnames (r.g, r.n) name }, .ok [])

/-- `Context::add_node_annotation` (graphs.rs:4558) -/
def addNodeAnnotation (s : State) (r : NRef) (a : Nat) : State × Result :=
  if r.ctx ≠ 0 then (s, .err)
  else if s.finalized then (s, .err)
  else if !(hasNode s r) then (s, .err)
  else ({ s with nannot := tpush s.nannot (r.g, r.n) a }, .ok [])

/-- `Context::add_graph_annotation` (graphs.rs:4600) -/
def addGraphAnnotation (s : State) (r : GRef) (a : Nat) : State × Result :=
  if r.ctx ≠ 0 then (s, .err)
  else if s.finalized then (s, .err)
  else if (s.graphs[r.g]?).isNone then (s, .err)
  else ({ s with gannot := tpush s.gannot r.g a }, .ok [])

/-- `Graph::set_output_node` (graphs.rs:3214) -/
def setOutput (s : State) (g : Nat) (r : NRef) : State × Result :=
  match s.graphs[g]? with
  | none => (s, .err)
  | some gr =>
    match gr.output with
    | some _ => (s, .err)
    | none =>
      if r.ctx ≠ 0 || r.g ≠ g then (s, .err)
      else if !(hasNode s r) then (s, .err)
      else (setGraph s g { gr with output := some r.n }, .ok [])

/-- `Graph::finalize` (graphs.rs:3174) -/
def finalizeGraph (s : State) (g : Nat) : State × Result :=
  match s.graphs[g]? with
  | none => (s, .err)
  | some gr =>
    match gr.output with
    | some _ => (setGraph s g { gr with finalized := true }, .ok [])
    | none => (s, .err)

/-- `Context::set_main_graph` (graphs.rs:4059) -/
def setMain (s : State) (r : GRef) : State × Result :=
  match s.main with
  | some _ => (s, .err)
  | none =>
    if r.ctx ≠ 0 then (s, .err)
    else
      match s.graphs[r.g]? with
      | none => (s, .err)
      | some gr =>
        if !gr.finalized then (s, .err)
        else ({ s with main := some r.g }, .ok [])

/-- `Context::finalize` (graphs.rs:4020) -/
def finalizeContext (s : State) : State × Result :=
  if !(s.graphs.all (·.finalized)) then (s, .err)
  else
    match s.main with
    | some _ => ({ s with finalized := true }, .ok [])
    | none => (s, .err)

/-! ### getters -/

def optPayload : Option Nat → Result
  | some v => .ok [v]
  | none => .err

/-- `get_graph_name` 4216, `retrieve_graph` 4249, `get_node_name` 4340, `retrieve_node` 4372,
    `get_node_by_id` 3271, `get_graph_by_id` 4127, `get_output_node` 3234, `get_main_graph` 4100,
    `get_node_annotations` 4586, `get_graph_annotations` 4622 -/
def getter (s : State) : Call → Result
  | .getGraphName r =>
    if r.ctx ≠ 0 then .err else optPayload (tget s.gnames r.g)
  | .retrieveGraph name => optPayload (tget s.gnamesInv name)
  | .getNodeName r =>
    if r.ctx ≠ 0 then .err
    else match tget s.nnames (r.g, r.n) with
      | some nm => .ok [nm]
      | none => .ok []
  | .retrieveNode r name =>
    if r.ctx ≠ 0 then .err else optPayload (tget s.nnamesInv (r.g, name))
  | .getNodeById g id =>
    match s.graphs[g]? with
    | some gr => (match gr.nodes[id]? with | some nd => .ok [nd.id] | none => .err)
    | none => .err
  | .getGraphById id =>
    match s.graphs[id]? with
    | some gr => .ok [gr.id]
    | none => .err
  | .getOutput g =>
    match s.graphs[g]? with
    | some gr => optPayload gr.output
    | none => .err
  | .getMain => optPayload s.main
  | .getNodeAnnotations r =>
    if r.ctx ≠ 0 then .err else .ok ((tget s.nannot (r.g, r.n)).getD [])
  | .getGraphAnnotations r =>
    if r.ctx ≠ 0 then .err else .ok ((tget s.gannot r.g).getD [])
  | _ => .err

/-- one API call -/
def step (s : State) : Call → State × Result
  | .createGraph => createGraph s
  | .addNode g op deps gdeps tv sz => addNodeInternal s g op deps gdeps tv sz
  | .addNodeWithType g op deps gdeps tyOk sz => addNodeInternal s g op deps gdeps tyOk sz
  | .setGraphName r name => setGraphName s r name
  | .setNodeName r name => setNodeName s r name
  | .addNodeAnnotation r a => addNodeAnnotation s r a
  | .addGraphAnnotation r a => addGraphAnnotation s r a
  | .setOutput g r => setOutput s g r
  | .finalizeGraph g => finalizeGraph s g
  | .setMain r => setMain s r
  | .finalizeContext => finalizeContext s
  | c => (s, getter s c)

/-- a call history -/
def run (s : State) : List Call → State
  | [] => s
  | c :: cs => run (step s c).1 cs

/-! ### what the public getters and the serializer can see -/

structure ObsNode where
  id : Nat
  op : Nat
  deps : List (Nat × Nat)
  gdeps : List Nat
  deriving DecidableEq, Repr

structure ObsGraph where
  id : Nat
  finalized : Bool
  nodes : List ObsNode
  output : Option Nat
  deriving DecidableEq, Repr

/-- everything but the size counter and the type cache -/
structure Obs where
  finalized : Bool
  graphs : List ObsGraph
  main : Option Nat
  gnames : List (Nat × Nat)
  gnamesInv : List (Nat × Nat)
  nnames : List ((Nat × Nat) × Nat)
  nnamesInv : List ((Nat × Nat) × Nat)
  nannot : List ((Nat × Nat) × List Nat)
  gannot : List (Nat × List Nat)
  deriving DecidableEq, Repr

def observe (s : State) : Obs :=
  { finalized := s.finalized,
    graphs := s.graphs.map (fun g =>
      { id := g.id, finalized := g.finalized, output := g.output,
        nodes := g.nodes.map (fun n => { id := n.id, op := n.op, deps := n.deps, gdeps := n.gdeps }) }),
    main := s.main, gnames := s.gnames, gnamesInv := s.gnamesInv, nnames := s.nnames,
    nnamesInv := s.nnamesInv, nannot := s.nannot, gannot := s.gannot }

end CCV.Context
