import CCV.Model.Compare
/-
  Model of sorting and permutation application in ciphercore:
  * plaintext `Sort` / `get_sorting_permutation` / `evaluate_gather` / `ApplyPermutation` /
    `InversePermutation` / `execute_inverse_permutation`
    (`ciphercore-base/src/evaluators/simple_evaluator.rs`),
  * the radix sort of `RadixSortMPC::instantiate` and `gen_multi_bit_sort_graph`
    (`ciphercore-base/src/mpc/mpc_radix_sort.rs`), on revealed values,
  * the integer-key encoding `integer_to_bits` of `ops/integer_key_sort.rs`.

  A table column is a list of rows (first array dimension); a key row is the list of its `b` bits
  (`u64` values 0/1 as `to_flattened_array_u64` returns them), index 0 first.  `none` = `Err`.
  Imports only `CCV.Model.Compare` (`toBits` = A2B bit order, `flipMsb` = `comparisons::flip_msb`):
  no Mathlib, linked into the native model executable.
-/
namespace CCV.Sort

/-! ### plaintext sort -/

/-- `Vec<u64>::cmp(a, b) == Less`: lexicographic, a proper prefix is smaller -/
def lexLt : List Nat → List Nat → Bool
  | [], [] => false
  | [], _ :: _ => true
  | _ :: _, [] => false
  | a :: as, b :: bs => if a < b then true else if b < a then false else lexLt as bs

/-- one insertion of a stable sort: `x` (which precedes all of the list in the input) goes before
    the first element that is not smaller than it -/
def insertBy {α : Type} (lt : α → α → Bool) (x : α) : List α → List α
  | [] => [x]
  | y :: ys => if lt y x then y :: insertBy lt x ys else x :: y :: ys

/-- `slice::sort_by` (a stable sort) with comparator "less" `lt`, as a stable insertion sort -/
def isort {α : Type} (lt : α → α → Bool) (l : List α) : List α := l.foldr (insertBy lt) []

/-- `array.chunks(k)`; the first argument is recursion fuel (`l.length` is enough) -/
def chunksFuel {α : Type} (k : Nat) : Nat → List α → List (List α)
  | 0, _ => []
  | f + 1, l => if l.isEmpty then [] else l.take k :: chunksFuel k f (l.drop k)

/-- the rows of a flattened `[n, …]` array: `array.chunks(array.len() / n)` -/
def rowsOf {α : Type} (n : Nat) (flat : List α) : List (List α) :=
  chunksFuel (flat.length / n) flat.length flat

/-- `get_sorting_permutation`: rows zipped with `0..n`, stably sorted by the row
    (`a.0.cmp(&b.0)`), indices returned -/
def sortPerm (keys : List (List Nat)) : List Nat :=
  (isort (fun a b => lexLt a.1 b.1) (keys.zip (List.range keys.length))).map (·.2)

/-- all entries present -/
def allSome {α : Type} : List (Option α) → Option (List α)
  | [] => some []
  | none :: _ => none
  | some x :: r => (allSome r).map (x :: ·)

/-- `evaluate_gather(input, indices, _, axis = 0)`: row `indices[j]` of the input for every `j`;
    "Incorrect index" if one is out of range -/
def gather {α : Type} (a : List α) (idx : List Nat) : Option (List α) :=
  allSome (idx.map (a[·]?))

/-- `Operation::Sort(key)`: the same `sorting_permutation` gathers every column -/
def sortColumns {α : Type} (keys : List (List Nat)) (cols : List (List α)) : Option (List (List α)) :=
  allSome (cols.map fun c => gather c (sortPerm keys))

/-! ### permutations -/

/-- `execute_inverse_permutation` loop: `result[values[i]] = i`, error if `values[i] >= len` -/
def invLoop : List Nat → Nat → List Nat → Option (List Nat)
  | [], _, res => some res
  | v :: vs, i, res => if v < res.length then invLoop vs (i + 1) (res.set v i) else none

/-- `execute_inverse_permutation` -/
def executeInverse (values : List Nat) : Option (List Nat) :=
  invLoop values 0 (List.replicate values.length 0)

/-- `Vec::dedup`: consecutive repeated elements removed -/
def dedupAdj : List Nat → List Nat
  | [] => []
  | [x] => [x]
  | x :: y :: r => if x = y then dedupAdj (y :: r) else x :: dedupAdj (y :: r)

/-- `sort_unstable` on `u64` -/
def sortNat (l : List Nat) : List Nat := isort (fun a b => decide (a < b)) l

/-- the duplicate test of `Operation::InversePermutation`: `sort_unstable(); dedup(); len` unchanged -/
def noDupTest (p : List Nat) : Bool := (dedupAdj (sortNat p)).length == p.length

/-- `Operation::InversePermutation`: duplicate test, then `execute_inverse_permutation`
    (which rejects entries `>= len`) -/
def inversePerm (p : List Nat) : Option (List Nat) :=
  if noDupTest p then executeInverse p else none

/-- the evaluator's validity test of `InversePermutation` as a predicate -/
def isPerm (p : List Nat) : Bool := noDupTest p && p.all (· < p.length)

/-- size of `HashSet` built from the list: number of distinct elements -/
def distinctCount : List Nat → Nat
  | [] => 0
  | x :: xs => if x ∈ xs then distinctCount xs else distinctCount xs + 1

/-- validity test of `Operation::ApplyPermutation`:
    `indexes.filter(x < n).collect::<HashSet>().len() == n` -/
def isPermApply (n : Nat) (p : List Nat) : Bool := distinctCount (p.filter (· < n)) == n

/-- `Operation::ApplyPermutation(inverse)` on an array with rows `a`: validity test, inversion if
    requested, `evaluate_gather` along axis 0 -/
def applyPermOp {α : Type} (inverse : Bool) (a : List α) (p : List Nat) : Option (List α) :=
  if isPermApply a.length p then
    if inverse then (executeInverse p).bind (gather a) else gather a p
  else none

/-- `Graph::apply_permutation`: `result[i] = a[p[i]]` -/
def applyPerm {α : Type} (p : List Nat) (a : List α) : Option (List α) := applyPermOp false a p

/-- `Graph::apply_inverse_permutation`: `result[p[i]] = a[i]` -/
def applyInversePerm {α : Type} (p : List Nat) (a : List α) : Option (List α) := applyPermOp true a p

/-! ### radix sort (`RadixSortMPC`), on revealed values -/

/-- value of a chunk of key bits as `gen_multi_bit_sort_graph` reads it: row 0 of its `[l, n]`
    input is the most significant bit (`xor_mask` is built "in reverse order") -/
def chunkVal (bits : List Nat) : Nat := bits.foldl (fun acc b => 2 * acc + b) 0

/-- `s[i][v]` of Algorithm 11 in `gen_multi_bit_sort_graph`:
    `last_row_prefix_sum[v] + f_prefix_sum[i][v]` = (number of elements with value `< v`) +
    (number of elements `k <= i` with value `v`) -/
def countS (vals : List Nat) (i v : Nat) : Nat :=
  (List.range vals.length).countP (fun k => decide (vals.getD k 0 < v)) +
  (List.range (i + 1)).countP (fun k => decide (vals.getD k 0 = v))

/-- `gen_multi_bit_sort_graph`: `p[i] = Σ_v s[i][v]·f[i][v] − 1` with `f` the one-hot encoding of
    `x[i]`, i.e. `s[i][x[i]] − 1`: the position of element `i` after a stable counting sort -/
def countingRank (vals : List Nat) : List Nat :=
  (List.range vals.length).map fun i => countS vals i (vals.getD i 0) - 1

/-- width of the first (least significant) chunk: `b % chunk`, or `chunk` if that is 0 -/
def step0Size (chunk b : Nat) : Nat := if b % chunk = 0 then chunk else b % chunk

/-- one round of the loop of `RadixSortMPC::instantiate` with the random shuffle `pi` made
    explicit: `k = shuffle(col, pi)`, `sigma' = shuffle_and_reveal(sigma, pi)`,
    `k = apply_inverse(k, sigma')`, `ro = gen_multi_bit_sort(k)`, `sigma = apply(ro, sigma')`,
    `sigma = unshuffle(sigma, pi)`.  Applying an inverse permutation goes through the
    `InversePermutation` operation (`perm.inverse_permutation()` in `mpc_apply_permutation.rs`). -/
def radixRound (pi : List Nat) (sigma : List Nat) (col : List Nat) : Option (List Nat) := do
  let k ← gather col pi
  let sigma' ← gather sigma pi
  let k' ← (inversePerm sigma').bind (gather k)
  let ro := countingRank k'
  let sigma'' ← gather ro sigma'
  (inversePerm pi).bind (gather sigma'')

/-- the loop `for bit_ind in (0..bit_chunks_count).rev()`; `pis` supplies the shuffles -/
def radixLoop (chunk : Nat) (keys : List (List Nat)) : List Nat → List (List Nat) → List Nat → Option (List Nat)
  | [], _, sigma => some sigma
  | c :: cs, pis, sigma =>
    let col := keys.map fun r => chunkVal ((r.drop (c * chunk)).take chunk)
    match radixRound (pis.headD (List.range keys.length)) sigma col with
    | some s => radixLoop chunk keys cs pis.tail s
    | none => none

/-- `RadixSortMPC::instantiate` up to `apply_sorting_permutation`: the rank permutation `sigma`
    (`sigma[i]` = position of row `i` in the sorted table).  `b` = key width, keys MSB first.
    Missing shuffles default to the identity. -/
def radixRank (chunk b : Nat) (keys : List (List Nat)) (pis : List (List Nat)) : Option (List Nat) :=
  let step0 := step0Size chunk b
  let sigma0 := countingRank (keys.map fun r => chunkVal (r.drop (b - step0)))
  let cnt := (b - step0) / chunk
  radixLoop chunk keys (List.range cnt).reverse pis sigma0

/-- `apply_sorting_permutation` (Algorithm 13) for one column with shuffle `pi`:
    `sigma' = shuffle_and_reveal(sigma, pi)`, `apply_inverse(shuffle(col, pi), sigma')` -/
def applySorting {α : Type} (pi sigma : List Nat) (col : List α) : Option (List α) := do
  let sigma' ← gather sigma pi
  let c ← gather col pi
  (inversePerm sigma').bind (gather c)

/-- the whole secure sort on revealed values: every column sorted with the radix rank -/
def radixSort {α : Type} (chunk b : Nat) (keys : List (List Nat)) (pis : List (List Nat)) (piLast : List Nat)
    (cols : List (List α)) : Option (List (List α)) :=
  match radixRank chunk b keys pis with
  | some sigma => allSome (cols.map (applySorting piLast sigma))
  | none => none

/-! ### integer keys (`ops/integer_key_sort.rs`) -/

/-- `integer_to_bits` for a scalar type of `w` bits (`w = 0` stands for `BIT`: `unsqueeze`, the
    bit itself): A2B (`w` bits of the residue, least significant first), `flip_msb` when signed,
    order of bits reversed → most significant first.  Bits as `u64` 0/1. -/
def intKeyBits (signed : Bool) (w : Nat) (x : Int) : List Nat :=
  if w = 0 then [(x % 2).toNat]
  else
    let bits := CCV.Compare.toBits w (x % (2 : Int) ^ w).toNat
    let bits := if signed then CCV.Compare.flipMsb bits else bits
    bits.reverse.map fun b => if b then 1 else 0

/-- `SortByIntegerKey`: the key column replaced by its bit strings, `Sort`, (the inverse map
    restores the integers): sorting permutation for an integer key column -/
def sortPermInt (signed : Bool) (w : Nat) (keys : List Int) : List Nat :=
  sortPerm (keys.map (intKeyBits signed w))

end CCV.Sort
