/-
  The resharing planner of the MPC compiler (C01, item T9).

  Rust: ciphercore-base/src/mpc/resharing.rs — `ResharingConfig::{local_operation_handler,
  ensure_dependencies_are_reshared, compute_graph_resharing, sanity_pass}` and
  `get_nodes_to_reshare`.  The planner decides which nodes of the PLAINTEXT graph get a
  3-out-of-3 → 2-out-of-3 conversion (`reshare`) appended to their compiled translation.

  The abstract graph keeps exactly what the planner reads of a node:
    * `cls`   — which match arm of `compute_graph_resharing` the operation falls into;
    * `bcast` — `Operation::is_broadcasting_called` (Add, Subtract, Multiply, Matmul, Gemm,
                MixedMultiply, Stack);
    * `priv`  — membership in `private_nodes` / `shared_nodes`;
    * `size`  — `get_size_in_bits(node.get_type())`;
    * `deps`  — `get_node_dependencies()` as indices into the node list (duplicates kept, in order).
  The two `HashSet<Node>` of `ResharingConfig` are lists without duplicates (`ins`/`del`).
  Same iteration order and same updates as the Rust code, statement by statement.

  Import-free (linked into the model driver).
-/
namespace CCV.Reshare

/-- the match arm of `compute_graph_resharing` an operation belongs to -/
inductive Cls where
  /-- `Operation::Input` — "No resharing is needed" -/
  | input
  /-- Add, Subtract, Sum, CumSum, Get, Stack, Concatenate, Reshape, PermuteAxes, Zip, Repeat, TupleGet,
      CreateNamedTuple, NamedTupleGet, VectorToArray, VectorGet, CreateTuple, ArrayToVector,
      CreateVector → `local_operation_handler` -/
  | loc
  /-- Multiply, Dot, Matmul, Gemm: all operands private ⇒ operands must be 2-out-of-3 and the result
      is 3-out-of-3; otherwise local -/
  | product
  /-- Join, JoinWithColumnMasks, Truncate, A2B, B2A, Sort, GetSlice → `ensure_dependencies_are_reshared` -/
  | need2
  /-- MixedMultiply, ApplyPermutation: operand 1 (bits / permutation) private ⇒ needs 2-out-of-3
      operands; public ⇒ local -/
  | cond1
  /-- anything else (`!is_mpc_compiled()` or the `_` arm): an error if the node is private -/
  | other
  deriving DecidableEq, Repr

structure Node where
  cls : Cls
  bcast : Bool
  priv : Bool
  size : Nat
  deps : List Nat
  deriving Repr

structure Graph where
  nodes : List Node
  /-- index of the output node -/
  out : Nat
  deriving Repr

/-- `HashSet::insert` -/
def ins (x : Nat) (s : List Nat) : List Nat := if x ∈ s then s else x :: s

/-- `HashSet::remove` -/
def del (x : Nat) (s : List Nat) : List Nat := s.filter (fun y => y != x)

/-- `ResharingConfig` -/
structure St where
  /-- `nodes_to_reshare` -/
  toReshare : List Nat
  /-- `unreshared_nodes` — "Nodes containing 3-out-of-3 shares" -/
  unreshared : List Nat
  deriving Repr

/-- `private_nodes.contains(dep)` -/
def privAt (g : Graph) (d : Nat) : Bool :=
  match g.nodes[d]? with
  | some n => n.priv
  | none => false

/-- `get_size_in_bits(dep.get_type()?)?` -/
def sizeAt (g : Graph) (d : Nat) : Nat :=
  match g.nodes[d]? with
  | some n => n.size
  | none => 0

/-- `ensure_dependencies_are_reshared`: every dependency that is currently unreshared moves to
    `nodes_to_reshare` ("Note that this affects other nodes with this dependency") -/
def ensureDeps : List Nat → St → St
  | [], s => s
  | d :: ds, s =>
    ensureDeps ds (if d ∈ s.unreshared then ⟨ins d s.toReshare, del d s.unreshared⟩ else s)

/-- `unreshared_input_size` (a dependency listed twice counts twice) -/
def unresSize (g : Graph) (u : List Nat) : List Nat → Nat
  | [] => 0
  | d :: ds => (if d ∈ u then sizeAt g d else 0) + unresSize g u ds

/-- `local_operation_handler` for node `i` -/
def localOp (g : Graph) (i : Nat) (n : Node) (s : St) : St :=
  if n.bcast then
    let uin := unresSize g s.unreshared n.deps
    if n.size > uin then ensureDeps n.deps s
    else if uin > 0 then { s with unreshared := ins i s.unreshared }
    else s
  else if n.deps.any (fun d => decide (d ∈ s.unreshared)) then
    { s with unreshared := ins i s.unreshared }
  else s

/-- `all_inputs_are_shared` -/
def allPriv (g : Graph) (n : Node) : Bool := n.deps.all (privAt g)

/-- body of the first loop of `compute_graph_resharing`; `none` = `Err` -/
def mainStep (g : Graph) (i : Nat) (n : Node) (s : St) : Option St :=
  if n.priv = false then some s
  else
    match n.cls with
    | .other => none
    | .input => some s
    | .loc => some (localOp g i n s)
    | .product =>
      if allPriv g n then
        let s' := ensureDeps n.deps s
        some { s' with unreshared := ins i s'.unreshared }
      else some (localOp g i n s)
    | .need2 => some (ensureDeps n.deps s)
    | .cond1 =>
      match n.deps with
      | _ :: d1 :: _ => if privAt g d1 then some (ensureDeps n.deps s) else some (localOp g i n s)
      | _ => none

def mainPass (g : Graph) : List Node → Nat → St → Option St
  | [], _, s => some s
  | n :: ns, i, s =>
    match mainStep g i n s with
    | none => none
    | some s' => mainPass g ns (i + 1) s'

/-- "Check that the output node is reshared" (the node stays in `unreshared_nodes`) -/
def outFix (g : Graph) (s : St) : St :=
  if g.out ∈ s.unreshared then { s with toReshare := ins g.out s.toReshare } else s

/-- `node_should_be_reshared` / `node_is_unreshared` of `sanity_pass` -/
def anyUnres (u : List Nat) (deps : List Nat) : Bool := deps.any (fun d => decide (d ∈ u))

/-- body of the loop of `sanity_pass` -/
def sanityStep (g : Graph) (i : Nat) (n : Node) (s : St) : St :=
  if n.cls = .product ∧ allPriv g n = true then s
  else
    let r := if i ∈ s.toReshare ∧ anyUnres s.unreshared n.deps = false then del i s.toReshare
             else s.toReshare
    let u := if i ∈ s.unreshared ∧ anyUnres s.unreshared n.deps = false then del i s.unreshared
             else s.unreshared
    ⟨r, u⟩

def sanityPass (g : Graph) : List Node → Nat → St → St
  | [], _, s => s
  | n :: ns, i, s => sanityPass g ns (i + 1) (sanityStep g i n s)

/-- `compute_graph_resharing`: final state -/
def compute (g : Graph) : Option St :=
  match mainPass g g.nodes 0 ⟨[], []⟩ with
  | none => none
  | some s => some (sanityPass g g.nodes 0 (outFix g s))

/-- `get_nodes_to_reshare` -/
def plan (g : Graph) : Option (List Nat) :=
  match compute g with
  | none => none
  | some s => some s.toReshare

/-- Executable companion of `CCV.C01.Unres` (Proofs/C01Reshare.lean): for every node in order, is its
    compiled value a 3-out-of-3 sharing that was not reshared, given the plan `p`?  A private node
    outside the plan is unreshared iff it is an all-private product or has an unreshared operand. -/
def unresList (g : Graph) (p : List Nat) : List Node → Nat → List Bool → List Bool
  | [], _, acc => acc
  | n :: ns, i, acc =>
    let b := n.priv && !decide (i ∈ p) &&
      ((decide (n.cls = .product) && allPriv g n) || n.deps.any (fun d => acc.getD d false))
    unresList g p ns (i + 1) (acc ++ [b])

def unresAll (g : Graph) (p : List Nat) : List Bool := unresList g p g.nodes 0 []

end CCV.Reshare
