/-
  Model of the comparison custom operations of ciphercore
  (`ciphercore-base/src/ops/comparisons.rs`, `ops/min_max.rs`, `ops/multiplexer.rs`).

  One pair of bit strings is modelled (the graph applies the same formulas element-wise to every
  broadcast pair).  A bit string is a `List Bool`, index 0 = least significant bit, exactly as the
  last array dimension of the operands (`get_msb_flip_constant` puts the mask at index `n-1`).
  After `pull_out_bits` the bit index is the outermost dimension, so the lists below are the
  outermost dimension of the `ComparisonResult` arrays.  The graph works over GF(2):
  `add` = xor, `multiply` = and, `Not` = xor with one.

  No imports: this file is linked into the native model executable.
-/
namespace CCV.Compare

/-- `struct ComparisonResult { a_equal_b, a }` for one bit position / one block of positions -/
structure St where
  eq : Bool
  a : Bool
deriving DecidableEq, Repr

/-- `ComparisonResult::from_a_b`: `a_equal_b = a + b + 1`, `a = a` -/
def fromAB (a b : Bool) : St := ⟨(a ^^ b) ^^ true, a⟩

/-- `ComparisonResult::join(&self, rhs)` with `self = lo`, `rhs = hi` (rhs has priority):
    `a = self.a * rhs.eq + rhs.a * (rhs.eq + 1)`, `eq = self.eq * rhs.eq` -/
def join (lo hi : St) : St :=
  ⟨lo.eq && hi.eq, (lo.a && hi.eq) ^^ (hi.a && (hi.eq ^^ true))⟩

/-- `get_slice(SubArray(Some(0), Some(len), Some(2)))`: every second element -/
def everyOther {α : Type} : List α → List α
  | [] => []
  | [x] => [x]
  | x :: _ :: rest => x :: everyOther rest

/-- `ComparisonResult::sub_slice(start_offset, bit_len)`: every second element from `start` -/
def subSlice (start : Nat) (l : List St) : List St := everyOther (l.drop start)

/-- `ComparisonResult::shrink`: `(shrinked, remainder)`.
    `offset = bit_len % 2`; remainder = element 0 if the length is odd;
    shrinked = `sub_slice(offset).join(sub_slice(offset + 1))` (element-wise) if `bit_len > 1`. -/
def shrink (l : List St) : Option (List St) × Option St :=
  let bitLen := l.length
  let offset := bitLen % 2
  let remainder := if offset = 0 then none else l.head?
  let shrinked :=
    if bitLen ≤ 1 then none
    else some (List.zipWith join (subSlice offset l) (subSlice (offset + 1) l))
  (shrinked, remainder)

/-- the `loop` of `build_comparison_graph`: collects the remainders in the order they are produced.
    The first argument is recursion fuel (the list length is enough: it at least halves). -/
def loop : Nat → List St → List St → List St
  | 0, _, rems => rems
  | fuel + 1, l, rems =>
    let r := shrink l
    let rems := match r.2 with
      | some x => rems ++ [x]
      | none => rems
    match r.1 with
    | some l' => loop fuel l' rems
    | none => rems

/-- `build_comparison_graph` after `from_a_b`: `res = remainders[0]; res = res.join(r)` for the
    others, in order.  (`remainders[0]` on an empty vector would panic: `none`.) -/
def build (l : List St) : Option St :=
  match loop l.length l [] with
  | [] => none
  | r0 :: rest => some (rest.foldl join r0)

/-- `flip_msb`: add the constant `[0,…,0,1]` (xor on the last index) -/
def flipMsb (l : List Bool) : List Bool :=
  List.zipWith (· ^^ ·) l (List.replicate (l.length - 1) false ++ [true])

def St.notA (s : St) : Bool := s.a ^^ true
def St.equal (s : St) : Bool := s.eq
def St.notEqual (s : St) : Bool := s.equal ^^ true
def St.lessThan (s : St) : Bool := s.notA && s.notEqual
def St.greaterThan (s : St) : Bool := s.a && s.notEqual
def St.greaterThanEqualTo (s : St) : Bool := s.lessThan ^^ true
def St.lessThanEqualTo (s : St) : Bool := s.greaterThan ^^ true

inductive Op where
  | eq | ne | lt | gt | le | ge
deriving DecidableEq, Repr

/-- the `post_process_result` closure of each custom operation -/
def Op.post : Op → St → Bool
  | .eq => St.equal
  | .ne => St.notEqual
  | .lt => St.lessThan
  | .gt => St.greaterThan
  | .le => St.lessThanEqualTo
  | .ge => St.greaterThanEqualTo

/-- `instantiate_comparison_custom_op` for one operand pair: validation
    (`validate_arguments_in_broadcast_bit_ops`: equal last dimensions;
    `validate_signed_arguments`: at least 2 bits when signed), `preprocess_inputs`
    (MSB flip when signed), `build_comparison_graph`, post-processing.  `none` = `Err`.
    (`Equal` / `NotEqual` always pass `signed = false`.) -/
def compare (op : Op) (signed : Bool) (a b : List Bool) : Option Bool :=
  if a.length ≠ b.length then none
  else if signed = true ∧ a.length < 2 then none
  else
    let a' := if signed then flipMsb a else a
    let b' := if signed then flipMsb b else b
    (build (List.zipWith fromAB a' b')).map op.post

/-- `Mux` on bits: `choice0 + flag * (choice0 + choice1)` -/
def mux (flag c1 c0 : Bool) : Bool := c0 ^^ (flag && (c0 ^^ c1))

/-- `Min::instantiate`: `Mux(GreaterThan(i1, i2), i2, i1)` bit by bit -/
def minBits (signed : Bool) (a b : List Bool) : Option (List Bool) :=
  (compare .gt signed a b).map fun c => List.zipWith (fun x1 x0 => mux c x1 x0) b a

/-- `Max::instantiate`: `Mux(GreaterThan(i1, i2), i1, i2)` bit by bit -/
def maxBits (signed : Bool) (a b : List Bool) : Option (List Bool) :=
  (compare .gt signed a b).map fun c => List.zipWith (fun x1 x0 => mux c x1 x0) a b

/-- the `w` low bits of `n`, least significant first -/
def toBits : Nat → Nat → List Bool
  | 0, _ => []
  | w + 1, n => (n % 2 == 1) :: toBits w (n / 2)

/-- the natural number encoded by a bit string (index 0 least significant) -/
def ofBits : List Bool → Nat
  | [] => 0
  | b :: bs => (if b then 1 else 0) + 2 * ofBits bs

/-! ### structural fingerprint: number of `Multiply` nodes of the instantiated graph -/

/-- number of iterations of the `loop` of `build_comparison_graph` that call `join`
    (i.e. `shrink` returned `shrinked`) -/
def loopJoins : Nat → List St → Nat
  | 0, _ => 0
  | fuel + 1, l =>
    match (shrink l).1 with
    | some l' => 1 + loopJoins fuel l'
    | none => 0

/-- number of `join` calls for width `w`: one per shrinking level plus `remainders.len() - 1` -/
def joinCalls (w : Nat) : Nat :=
  let l := List.replicate w (⟨true, false⟩ : St)
  loopJoins w l + ((loop w l []).length - 1)

/-- `Multiply` nodes: 3 per `join`; one more in `less_than` / `greater_than` (and their
    negations); one more in `Mux` for min/max (extra = 2) -/
def multNodes (extra : Nat) (w : Nat) : Nat := 3 * joinCalls w + extra

end CCV.Compare
