import CCV.Model.Ops
/-
  Evaluator-shaped executable semantics of further deterministic operations of
  ciphercore-base/src/evaluators/simple_evaluator.rs:

    `Operation::SegmentCumSum`   (simple_evaluator.rs, arm of `evaluate_node`)
    `Operation::CuckooHash`      (`evaluate_cuckoo`)
    `Operation::Zip`, `Repeat`, `CreateTuple/CreateNamedTuple/CreateVector`, `TupleGet`,
    `NamedTupleGet`, `VectorGet`  (value-level plumbing)

  Conventions as in `CCV.Model.Ops`: arrays are flat lists of stored residues in row-major order.
  Import-free apart from other models (linked into the model driver).
-/
namespace CCV.Ops
open CCV CCV.Shape

/-! ### SegmentCumSum -/

/-- body of the loop `for (i, b) in binary_array.iter().enumerate()` of `Operation::SegmentCumSum`:
    the new row is the input row `i` when `b == 0`, else `add_vectors_u128(input_row, previous_row)`
    where the previous row is row `i` of the result built so far; the row is appended.
    (`add_vectors_u128` is called on two slices of `row_size` elements, its length check cannot
    fail.) -/
def segStep (m : Option Nat) (rowSize : Nat) (inp bits : List Nat) (res : List Nat) (i : Nat) : List Nat :=
  let row :=
    if bits.getD i 0 = 0 then slice inp (i * rowSize) rowSize
    else List.zipWith (fun a b => addU128 a b m) (slice inp (i * rowSize) rowSize) (slice res (i * rowSize) rowSize)
  res ++ row

/-- `Operation::SegmentCumSum` on the input array `xs` (shape `n × row`), the bit array `bits`
    (length `n`) and the first row `first` (`rowSize = Π row` elements; a scalar has one element):
    all operands are read as sign-extended u128, `result_array = first_row`, one row is appended per
    bit, the low `w` bits are written back (`Value::from_flattened_array`). -/
def segmentCumSum (st : ST) (rowSize : Nat) (xs bits first : List Nat) : List Nat :=
  let inp := xs.map (ext st)
  let res := (List.range bits.length).foldl (segStep (modulus st) rowSize inp bits) (first.map (ext st))
  res.map (low st)

/-! ### CuckooHash -/

/-- `CUCKOO_DUMMY_ELEMENT = u64::MAX` (also the initial `usize::MAX` of `used_hash_functions`) -/
def cuckooDummy : Nat := 2 ^ 64 - 1

/-- inner loop over the columns: `hash_index_bit ^= hash_matrices_bits[off + column] & input_bit`
    for `column < min(input_string.len(), hash_matrix_columns)` -/
def hashBit (hm : List Nat) (off : Nat) (str : List Nat) (cols : Nat) : Nat :=
  (List.range (min str.length cols)).foldl (fun acc c => acc ^^^ (hm.getD (off + c) 0 &&& str.getD c 0)) 0

/-- hash of one input string by hash function `f`: `new_index ^= hash_index_bit << row` over the
    rows of the `f`-th matrix (`hash_matrix_size * f + row * hash_matrix_columns + column`). -/
def hashIndex (hm : List Nat) (rows cols f : Nat) (str : List Nat) : Nat :=
  (List.range rows).foldl (fun idx row => idx ^^^ (hashBit hm (rows * cols * f + row * cols) str cols <<< row)) 0

/-- the `while reinsert_attempt < 100` loop of `evaluate_cuckoo` for one input string; `fuel` is the
    number of loop bodies left (`100 - reinsert_attempt`).  `hashAt f i` is the cell (`result_index`) of
    string `i` of the current set under hash function `f`; state = (`hash_table`,
    `used_hash_functions`).  `none` = `insertion_failed`. -/
def cuckooInsert (hashAt : Nat → Nat → Nat) (h : Nat) :
    Nat → Nat → Nat → List Nat × List Nat → Option (List Nat × List Nat)
  | 0, _, _, _ => none
  | fuel + 1, cur, f, (table, used) =>
    let ri := hashAt f cur
    if table.getD ri 0 = cuckooDummy then
      some (table.set ri cur, used.set ri f)
    else
      -- evict the occupant, re-insert it with its next hash function
      cuckooInsert hashAt h fuel (table.getD ri 0) ((used.getD ri 0 + 1) % h) (table.set ri cur, used.set ri f)

/-- hash of string `i` of set `set` by function `f` (`string_start = (set_i * n + i) * b`) -/
def cuckooHashAt (inputBits hm : List Nat) (n b rows cols set f i : Nat) : Nat :=
  hashIndex hm rows cols f (slice inputBits ((set * n + i) * b) b)

/-- `evaluate_cuckoo`: input bits of shape `[numSets.., n, b]`, hash matrices of shape
    `[h, rows, cols]`, result of shape `[numSets.., 2^rows]` (UINT64).  One flat `hash_table` and one
    flat `used_hash_functions` of `numSets · 2^rows` cells, all `CUCKOO_DUMMY_ELEMENT` / `usize::MAX`
    at the start; `for set_i { for string_i { while … } }`, the cell of a string of set `set_i` is
    `result_index = set_i * size_of_output_table + new_index`; every string starts with hash
    function 0; a failed insertion makes the whole evaluation fail. -/
def cuckooHash (inputBits hm : List Nat) (numSets n b h rows cols : Nat) : Except String (List Nat) :=
  match (List.range numSets).foldlM (fun st s =>
      (List.range n).foldlM (fun st i =>
        cuckooInsert (fun f j => s * 2 ^ rows + cuckooHashAt inputBits hm n b rows cols s f j) h 100 i 0 st) st)
      (List.replicate (numSets * 2 ^ rows) cuckooDummy, List.replicate (numSets * 2 ^ rows) cuckooDummy) with
  | none => .error "Cuckoo hashing failed"
  | some (table, _) => .ok table

/-! ### Zip / Repeat / tuple plumbing (values of any kind `α`) -/

/-- one round of the `'result_entries` loop of `Operation::Zip`: `None` = some vector is exhausted
    (`break 'result_entries`) -/
def zipRow {α : Type} (values : List (List α)) (index : Nat) : Option (List α) :=
  values.mapM (fun v => v[index]?)

/-- the loop of `Operation::Zip` (`fuel` bounds the number of rounds) -/
def zipLoop {α : Type} (values : List (List α)) : Nat → Nat → List (List α)
  | 0, _ => []
  | fuel + 1, index =>
    match zipRow values index with
    | none => []
    | some row => row :: zipLoop values fuel (index + 1)

/-- `Operation::Zip` (at least two vectors by type inference; the first vector's length bounds the
    loop). -/
def zip {α : Type} (values : List (List α)) : List (List α) :=
  zipLoop values (values.headD []).length 0

/-- `Operation::Repeat(n)`: `repeat(value).take(n)` -/
def repeatV {α : Type} (n : Nat) (v : α) : List α := List.replicate n v

/-- `Operation::CreateTuple | CreateNamedTuple | CreateVector`: `Value::from_vector(dependencies)` -/
def createTuple {α : Type} (vs : List α) : List α := vs

/-- `Operation::TupleGet(id)`: `to_vector()[id]` (`None`: Rust would panic; excluded by type inference) -/
def tupleGet {α : Type} (vs : List α) (id : Nat) : Option α := vs[id]?

/-- `Operation::NamedTupleGet(name)`: first field with that name -/
def namedTupleGet {α : Type} (names : List String) (vs : List α) (name : String) : Option α :=
  match names.findIdx? (· == name) with
  | none => none
  | some id => vs[id]?

/-- `Operation::VectorGet`: run-time error when the index is not below the vector length -/
def vectorGet {α : Type} (vs : List α) (id : Nat) : Except String α :=
  match vs[id]? with
  | none => .error "Index out of range"
  | some v => .ok v

end CCV.Ops
